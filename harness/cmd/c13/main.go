package main

// C13 harness — FETCH returns byte-exact message data for every section and partial.
//
// Over the wire against an in-process server: APPEND generated messages whose parts are known by construction, FETCH
// every section path / random field lists / offset-length pairs and check the relations of the property on the wire:
//   BODY[] = appended message + one `X-Pm-Gluon-Id: <uuid>` line in front of the first header field; RFC822 = BODY[];
//   RFC822.SIZE = its length; BODY[HEADER] ++ BODY[TEXT] = BODY[]; BODY[n.m] = that part's bytes; <o.n> = that slice;
//   HEADER.FIELDS / HEADER.FIELDS.NOT partition the header fields; every announced literal length = bytes that follow
//   (the response line must parse completely).
// cases.v: the same literals through the Coq model (small messages only).
// Offset/count pairs whose sum overflows int64 are sent to a server in a CHILD process (a panic there must not lose
// the other observations).

import (
	"bytes"
	"encoding/json"
	"fmt"
	"os"
	"os/exec"
	"regexp"
	"strconv"
	"strings"
	"time"

	"github.com/ProtonMail/gluon/db"
	"github.com/ProtonMail/gluon/rfc822"

	"verifharness/common"
	"verifharness/imapc"
	"verifharness/mimegen"
	"verifharness/srv"
)

func main() {
	if os.Getenv("VERIF_C13_CHILD") != "" {
		overflowChild()
		return
	}
	common.Main("C13", run)
}

const maxInt64 = "9223372036854775807"

// ---------- FETCH response parsing ----------

type item struct {
	Name string
	Lit  []byte // literal value (nil if the value is not a literal)
	Text string // other values
}

// parseFetch splits "* n FETCH (NAME value NAME value ...)" into items; ok=false if the line is not exactly of
// that shape (which also happens when an announced literal length does not match the bytes that follow).
func parseFetch(l imapc.Line) (int, []item, bool) {
	t := l.Text
	m := regexp.MustCompile(`^\* (\d+) FETCH \(`).FindStringSubmatch(t)
	if m == nil || !strings.HasSuffix(t, ")") {
		return 0, nil, false
	}
	seq, _ := strconv.Atoi(m[1])
	s := t[len(m[0]) : len(t)-1]
	lits := l.Lits
	var items []item
	i := 0
	for i < len(s) {
		// name: up to a space at bracket depth 0
		depth := 0
		j := i
		for j < len(s) && !(s[j] == ' ' && depth == 0) {
			if s[j] == '[' {
				depth++
			}
			if s[j] == ']' {
				depth--
			}
			j++
		}
		if j >= len(s) {
			return seq, nil, false
		}
		name := s[i:j]
		i = j + 1
		if i >= len(s) {
			return seq, nil, false
		}
		switch {
		case s[i] == '{':
			k := strings.IndexByte(s[i:], '}')
			if k < 0 || len(lits) == 0 {
				return seq, nil, false
			}
			n, err := strconv.Atoi(s[i+1 : i+k])
			if err != nil || n != len(lits[0]) {
				return seq, nil, false
			}
			items = append(items, item{Name: name, Lit: lits[0]})
			lits = lits[1:]
			i += k + 1
		case s[i] == '(':
			d := 0
			k := i
			for k < len(s) {
				if s[k] == '(' {
					d++
				}
				if s[k] == ')' {
					d--
					if d == 0 {
						break
					}
				}
				k++
			}
			if k >= len(s) {
				return seq, nil, false
			}
			items = append(items, item{Name: name, Text: s[i : k+1]})
			i = k + 1
		default:
			k := strings.IndexByte(s[i:], ' ')
			if k < 0 {
				k = len(s) - i
			}
			items = append(items, item{Name: name, Text: s[i : i+k]})
			i += k
		}
		if i < len(s) {
			if s[i] != ' ' {
				return seq, nil, false
			}
			i++
		}
	}
	if len(lits) != 0 {
		return seq, nil, false
	}
	return seq, items, true
}

type fetchRes struct {
	Status string
	Items  []item
	Parsed bool
}

func fetch(c *imapc.Client, seq int, attrs string) (fetchRes, error) {
	r, err := c.Cmd(fmt.Sprintf("FETCH %d (%s)", seq, attrs))
	if err != nil {
		return fetchRes{}, err
	}
	fr := fetchRes{Status: r.Status, Parsed: true}
	for _, l := range r.Untagged {
		if !strings.Contains(l.Text, " FETCH (") {
			continue
		}
		n, items, ok := parseFetch(l)
		if !ok {
			fr.Parsed = false
			continue
		}
		if n == seq {
			fr.Items = append(fr.Items, items...)
		}
	}
	return fr, nil
}

// ---------- expectations by construction ----------

type secReq struct {
	Attr   string // e.g. BODY.PEEK[2.MIME]
	Name   string // expected item name in the response
	Want   []byte
	Path   []int
	Spec   string // Coq spec term
	Exists bool
	A, B   int // Want = stored[A:B]
}

func pathStr(p []int) string {
	s := make([]string, len(p))
	for i, x := range p {
		s[i] = strconv.Itoa(x)
	}
	return strings.Join(s, ".")
}

func coqPath(p []int) string {
	s := make([]string, len(p))
	for i, x := range p {
		s[i] = fmt.Sprintf("%d%%nat", x)
	}
	return "[" + strings.Join(s, "; ") + "]"
}

// sectionRequests lists every section path of the tree with the bytes it must return. stored = BODY[]; shift = length of
// the ID line; idAt = where it was inserted.
func sectionRequests(tree *mimegen.Node, stored []byte, idAt, shift int) []secReq {
	var out []secReq
	pos := func(p int) int { // position in msg -> position in stored
		if p >= idAt {
			return p + shift
		}
		return p
	}
	type rng struct{ a, b int }
	sl := func(a, b int) rng { return rng{pos(a), pos(b)} }
	add := func(path []int, kw string, w rng, spec string) {
		want := stored[w.a:w.b]
		sec := pathStr(path)
		if kw != "" {
			if sec != "" {
				sec += "."
			}
			sec += kw
		}
		out = append(out, secReq{Attr: "BODY.PEEK[" + sec + "]", Name: "BODY[" + sec + "]", Want: want, Path: append([]int{}, path...), Spec: spec, Exists: true, A: w.a, B: w.b})
	}
	// top level: the header contains the ID line
	hdrStart := tree.HStart
	add(nil, "HEADER", rng{hdrStart, pos(tree.BStart)}, "SpHeader")
	add(nil, "TEXT", sl(tree.BStart, tree.End), "SpText")
	var rec func(n *mimegen.Node, path []int)
	// n: the entity whose parts are numbered below path (a message: top level or embedded)
	rec = func(n *mimegen.Node, path []int) {
		if n.IsMulti() {
			for i, c := range n.Children {
				p := append(append([]int{}, path...), i+1)
				add(p, "", sl(c.BStart, c.End), "SpBody")
				add(p, "MIME", sl(c.HStart, c.BStart), "SpMime")
				if c.IsMsg() && c.Embedded != nil {
					e := c.Embedded
					add(p, "HEADER", sl(e.HStart, e.BStart), "SpHeader")
					add(p, "TEXT", sl(e.BStart, e.End), "SpText")
					rec(e, p)
				} else if c.IsMulti() {
					rec(c, p)
				}
			}
		} else if n.IsMsg() && n.Embedded != nil {
			// an embedded message that is itself of type message/rfc822 (not multipart): its part 1 is its body, i.e. the
			// message it embeds; below that the numbering continues in the embedded message
			p := append(append([]int{}, path...), 1)
			e := n.Embedded
			add(p, "", sl(n.BStart, n.End), "SpBody")
			add(p, "MIME", sl(n.HStart, n.BStart), "SpMime")
			add(p, "HEADER", sl(e.HStart, e.BStart), "SpHeader")
			add(p, "TEXT", sl(e.BStart, e.End), "SpText")
			if !e.IsMulti() {
				rec(e, p)
			}
		} else {
			// non-multipart message: part 1 is the body
			p := append(append([]int{}, path...), 1)
			add(p, "", sl(n.BStart, n.End), "SpBody")
		}
	}
	if tree.IsMsg() && tree.Embedded != nil {
		e := tree.Embedded
		if e.IsMulti() {
			// the message itself is of type message/rfc822 and embeds a multipart: the part numbers are those of the
			// embedded multipart (consistent with the structure the server reports, known finding C12-rfc822-multipart-structure)
			rec(e, nil)
		} else {
			// ... embeds a single part: the message has part 1, its own body (what BODYSTRUCTURE describes); below it the
			// numbering is that of the embedded message (C13-fix-5)
			p := []int{1}
			add(p, "", sl(tree.BStart, tree.End), "SpBody")
			add(p, "MIME", rng{hdrStart, pos(tree.BStart)}, "SpMime")
			add(p, "HEADER", sl(e.HStart, e.BStart), "SpHeader")
			add(p, "TEXT", sl(e.BStart, e.End), "SpText")
			rec(e, p)
		}
	} else {
		rec(tree, nil)
	}
	return out
}

var reAtomName = regexp.MustCompile(`^[A-Za-z0-9_.+-]+$`)

var reIDLine = regexp.MustCompile(`^X-Pm-Gluon-Id: ([0-9a-fA-F-]{36})\r\n`)

// ---------- ct table for the model (answers of mime.ParseMediaType through the public API) ----------

func ctTable(lit []byte, name string) string {
	var rows []string
	seen := map[string]bool{}
	var visit func(sec *rfc822.Section, depth int)
	classify := func(sec *rfc822.Section) int {
		mt, params, err := sec.ContentType()
		k := 0
		var b string
		if err == nil {
			if mt == rfc822.MessageRFC822 {
				k = 1
			} else if mt.IsMultiPart() {
				k, b = 2, params["boundary"]
			}
		}
		hb := sec.Header()
		h := string(hb)
		if !seen[h] && k != 0 {
			seen[h] = true
			kind := "CtMessage"
			if k == 2 {
				kind = "(CtMultipart " + common.CoqBytes([]byte(b)) + ")"
			}
			a := cap(lit) - cap(hb)
			rows = append(rows, fmt.Sprintf("(slice %s %d %d, %s)", name, a, a+len(hb), kind))
		}
		return k
	}
	visit = func(sec *rfc822.Section, depth int) {
		if depth > 50 {
			return
		}
		k := classify(sec)
		emb := sec
		for i := 0; k == 1 && i < 50; i++ {
			emb = rfc822.Parse(emb.Body())
			k = classify(emb)
		}
		cs, err := sec.Children()
		if err != nil {
			return
		}
		for _, c := range cs {
			visit(c, depth+1)
		}
	}
	visit(rfc822.Parse(lit), 0)
	return "[" + strings.Join(rows, "; ") + "]"
}

// ---------- overflow probes in a child process ----------

// overflowChild: VERIF_C13_CHILD="<offset>.<count>": own server, one message, one FETCH; prints RESULT <status> <hex>.
func overflowChild() {
	spec := os.Getenv("VERIF_C13_CHILD")
	s, err := srv.Start(srv.Options{})
	if err != nil {
		fmt.Println("INFRA", err)
		os.Exit(3)
	}
	c, err := s.Login()
	if err != nil {
		fmt.Println("INFRA", err)
		os.Exit(3)
	}
	msg := common.Message("overflow", "0123456789")
	if r, err := c.Append("INBOX", "", msg); err != nil || r.Status != "OK" {
		fmt.Println("INFRA append", err, r.Text)
		os.Exit(3)
	}
	c.Cmd("SELECT INBOX")
	c.Timeout = 30 * time.Second
	fr, err := fetch(c, 1, "BODY.PEEK[]<"+spec+">")
	if err != nil {
		// the connection died: give the server a moment to take the process down with its panic
		time.Sleep(2 * time.Second)
		fmt.Println("RESULT CLOSED")
		os.Exit(0)
	}
	full, _ := fetch(c, 1, "BODY.PEEK[]")
	var got, whole []byte
	if len(fr.Items) > 0 {
		got = fr.Items[0].Lit
	}
	if len(full.Items) > 0 {
		whole = full.Items[0].Lit
	}
	fmt.Printf("RESULT %s %x %x\n", fr.Status, got, whole)
	s.Stop()
	os.Exit(0)
}

func runOverflowProbe(spec string) (status string, got, whole []byte, crashed bool, detail string, err error) {
	exe, err := os.Executable()
	if err != nil {
		return "", nil, nil, false, "", err
	}
	cmd := exec.Command(exe)
	cmd.Env = append(os.Environ(), "VERIF_C13_CHILD="+spec)
	var out, errb bytes.Buffer
	cmd.Stdout, cmd.Stderr = &out, &errb
	done := make(chan error, 1)
	if err := cmd.Start(); err != nil {
		return "", nil, nil, false, "", err
	}
	go func() { done <- cmd.Wait() }()
	select {
	case werr := <-done:
		text := out.String() + errb.String()
		if m := regexp.MustCompile(`(?m)^(panic:.*|fatal error:.*)$`).FindString(text); m != "" {
			if len(text) > 1500 {
				text = text[:1500]
			}
			return "", nil, nil, true, m + "\n" + text, nil
		}
		if m := regexp.MustCompile(`(?m)^RESULT (\S+)(?: ([0-9a-f]*) ([0-9a-f]*))?$`).FindStringSubmatch(out.String()); m != nil {
			var g, w []byte
			fmt.Sscanf(m[2], "%x", &g)
			fmt.Sscanf(m[3], "%x", &w)
			return m[1], g, w, false, "", nil
		}
		return "", nil, nil, false, "", fmt.Errorf("overflow child: %v: %s", werr, text)
	case <-time.After(120 * time.Second):
		cmd.Process.Kill()
		return "", nil, nil, false, "", fmt.Errorf("overflow child timed out")
	}
}

// ---------- the run ----------

func short(b []byte) string {
	s := fmt.Sprintf("%q", b)
	if len(s) > 240 {
		s = s[:240] + "..."
	}
	return s
}

func clip(lit []byte, o, n uint64) []byte {
	if o >= uint64(len(lit)) {
		return nil
	}
	rest := lit[o:]
	if n >= uint64(len(rest)) {
		return rest
	}
	return rest[:n]
}

func run(ctx *common.Ctx) error {
	res := ctx.Res
	rng := ctx.Rng
	res.Rule = "generated MIME trees appended over the wire; every section path, HEADER/TEXT/MIME, random HEADER.FIELDS(.NOT) lists, offset/length pairs (0, len±1, 2^31, 2^63-1, overflowing sums); non-trivial = distinct (message, section/partial) requests whose expected answer is a non-empty proper part of the message"
	s, err := srv.Start(srv.Options{})
	if err != nil {
		return err
	}
	defer s.Stop()
	c, err := s.Login()
	if err != nil {
		return err
	}
	defer c.Close()
	c.Timeout = 120 * time.Second
	if r, err := c.Cmd("CREATE box"); err != nil || r.Status != "OK" {
		return fmt.Errorf("create: %v %v", err, r.Text)
	}
	if r, err := c.Cmd("SELECT box"); err != nil || r.Status != "OK" {
		return fmt.Errorf("select: %v %v", err, r.Text)
	}
	var lines []string
	var defs strings.Builder // literals and media-type tables, defined once per message
	id := 0
	nextID := func() int { id++; return id }
	modelCases := 0
	fieldCases := 0
	seenFail := map[string]bool{}
	fail := func(canon, detail string, cs interface{}) {
		if !seenFail[canon] {
			seenFail[canon] = true
			res.Fail(canon, detail, cs)
		}
	}
	seq := 0

	type caseInfo struct {
		Shape   string        `json:"shape"`
		Message string        `json:"message"`
		Request string        `json:"request"`
		Tree    *mimegen.Node `json:"tree,omitempty"` // with the positions of the rendered message
		Msg     []byte        `json:"msg,omitempty"`  // the appended bytes
	}
	// --replay FILE: only the message (or the overflow request) of that file
	var replayCase *caseInfo
	replayOverflow := ""
	if ctx.Replay != "" {
		var rf struct {
			Case caseInfo `json:"case"`
		}
		b, err := os.ReadFile(ctx.Replay)
		if err != nil {
			return err
		}
		if err := json.Unmarshal(b, &rf); err != nil {
			return err
		}
		if rf.Case.Tree != nil {
			replayCase = &rf.Case
		} else {
			replayOverflow = rf.Case.Request
		}
	}

	nMsgs := ctx.Budget(140, 5000)
	bigSizes := []int{256*1024 - 300, 256 * 1024, 256*1024 + 1, 600 * 1024}
	if replayCase != nil {
		nMsgs, bigSizes = 1, nil
	} else if replayOverflow != "" {
		nMsgs, bigSizes = 0, nil
	}
	for mi := 0; mi < nMsgs+len(bigSizes); mi++ {
		ascii := mi%2 == 0
		big := mi >= nMsgs
		prefix := rng.Chance(0.35)
		g := &mimegen.Gen{Rng: rng, MaxBody: 80, ASCII: ascii, NoTopMsg: mi%4 != 3, TopMsg: mi%8 == 7, NoMsgInMsg: true, MsgChainLeaf: true, Bare: true, NoClose: true, Prefix: prefix, EmptyFields: true, WideNames: true}
		mix := rng.Chance(0.4)
		var tree *mimegen.Node
		if big {
			tree = g.Tree(0, true, false)
			tree.Body = bytes.Repeat([]byte("0123456789abcde\r\n"), bigSizes[mi-nMsgs]/17+1)[:bigSizes[mi-nMsgs]]
		} else {
			depth := rng.Range(0, 3)
			if g.TopMsg && depth == 0 {
				depth = 1
			}
			tree = g.Tree(depth, true, mix)
			if rng.Chance(0.1) {
				tree.Prelude = "this line has no colon"
			}
		}
		layout := &mimegen.Layout{Rng: rng, MixEOL: mix, LF: !mix && rng.Chance(0.4), Fold: rng.Chance(0.5), LowerHN: rng.Chance(0.3)}
		if corpus := mimegen.CorpusTrees(); mi < len(corpus) && !big {
			// minimised inputs of fixed defects run first, in their plain rendering
			tree, layout = corpus[mi], &mimegen.Layout{Rng: common.NewRng(1)}
			res.Count("corpus")
		}
		msg := mimegen.Render(tree, layout)
		if replayCase != nil {
			tree, msg = replayCase.Tree, replayCase.Msg
		}
		shape := mimegen.Shape(tree)
		info := func(req string) caseInfo {
			ci := caseInfo{Shape: shape, Message: short(msg), Request: req}
			if !big {
				ci.Tree, ci.Msg = tree, msg
			}
			return ci
		}
		ctx.Current("APPEND "+shape, info("APPEND"))
		r, err := c.Append("box", "", msg)
		if err != nil {
			return fmt.Errorf("append: %v", err)
		}
		if r.Status != "OK" {
			// the generator only produces messages APPEND must accept
			res.Infra("APPEND of a generated message refused: %s : %s", r.Text, short(msg))
			continue
		}
		seq++
		res.Count("message")
		if big {
			res.Count("message-across-store-block")
		}
		small := !big && ascii && len(msg) <= 420 && modelCases < ctx.Budget(700, 2500) && defs.Len() < ctx.Budget(60000, 200000)
		L := fmt.Sprintf("L%d", seq)
		T := fmt.Sprintf("T%d", seq)

		// ---- BODY[], RFC822, RFC822.SIZE, HEADER, TEXT ----
		ctx.Current(fmt.Sprintf("FETCH BODY[] %s", shape), info("BODY[] RFC822 RFC822.SIZE"))
		fr, err := fetch(c, seq, "BODY.PEEK[] RFC822.SIZE BODY.PEEK[HEADER] BODY.PEEK[TEXT] RFC822.HEADER RFC822.TEXT RFC822")
		if err != nil {
			return err
		}
		res.Evaluations++
		if fr.Status != "OK" || !fr.Parsed || len(fr.Items) < 7 {
			fail("FETCH-MALFORMED BODY[] "+shape, fmt.Sprintf("status=%s parsed=%v items=%d", fr.Status, fr.Parsed, len(fr.Items)), info("BODY[]"))
			continue
		}
		stored := fr.Items[0].Lit
		// BODY[] = message + ID line in front of the first header field
		idAt := 0
		if tree.Prelude != "" {
			idAt = bytes.IndexByte(msg, '\n') + 1
		}
		var idVal []byte
		okSplice := false
		if len(stored) >= len(msg) && bytes.Equal(stored[:idAt], msg[:idAt]) {
			if m := reIDLine.FindSubmatch(stored[idAt:]); m != nil && bytes.Equal(stored[idAt+len(m[0]):], msg[idAt:]) {
				okSplice = true
				idVal = m[1]
			}
		}
		if !okSplice {
			fail("BODY[]-NOT-MESSAGE-PLUS-ID-LINE "+shape, "BODY[] is not the appended message with one X-Pm-Gluon-Id line in front of the first header field: "+short(stored), info("BODY[]"))
			continue
		}
		shift := len(stored) - len(msg)
		if fr.Items[1].Text != strconv.Itoa(len(stored)) {
			fail("RFC822.SIZE-MISMATCH", fmt.Sprintf("RFC822.SIZE %s, BODY[] has %d bytes", fr.Items[1].Text, len(stored)), info("RFC822.SIZE"))
		}
		if !bytes.Equal(append(append([]byte{}, fr.Items[2].Lit...), fr.Items[3].Lit...), stored) {
			fail("HEADER+TEXT-MISMATCH "+shape, "BODY[HEADER] followed by BODY[TEXT] is not BODY[]", info("BODY[HEADER] BODY[TEXT]"))
		}
		if !bytes.Equal(append(append([]byte{}, fr.Items[4].Lit...), fr.Items[5].Lit...), stored) {
			fail("RFC822.HEADER+TEXT-MISMATCH "+shape, "RFC822.HEADER followed by RFC822.TEXT is not BODY[]", info("RFC822.HEADER RFC822.TEXT"))
		}
		if !bytes.Equal(fr.Items[6].Lit, stored) {
			fail("RFC822-MISMATCH "+shape, "RFC822 differs from BODY[]", info("RFC822"))
		}
		if small {
			if cap(stored) != len(stored) {
				stored = append(make([]byte, 0, len(stored)), stored...)
			}
			fmt.Fprintf(&defs, "Definition %s : bytes := %s.\nDefinition %s : list (bytes * ctype) := %s.\n", L, common.CoqBytes(stored), T, ctTable(stored, L))
			vStart := idAt + len("X-Pm-Gluon-Id: ")
			lines = append(lines, fmt.Sprintf("CSplice %d (slice %s 0 %d ++ skipn %d %s) (slice %s %d %d) %s", nextID(), L, idAt, idAt+shift, L, L, vStart, vStart+len(idVal), L))
			lines = append(lines, fmt.Sprintf("CSize %d %s %s %d", nextID(), L, fr.Items[1].Text, len(stored)))
			lines = append(lines, fmt.Sprintf("CSection %d %s %s [] SpAll (Some %s)", nextID(), L, T, L))
			modelCases += 3
		}

		// ---- every section path ----
		reqs := sectionRequests(tree, stored, idAt, shift)
		for start := 0; start < len(reqs); start += 12 {
			end := start + 12
			if end > len(reqs) {
				end = len(reqs)
			}
			batch := reqs[start:end]
			attrs := make([]string, len(batch))
			for i, q := range batch {
				attrs[i] = q.Attr
			}
			ctx.Current("FETCH "+strings.Join(attrs, " ")+" "+shape, info(strings.Join(attrs, " ")))
			fr, err := fetch(c, seq, strings.Join(attrs, " "))
			if err != nil {
				return err
			}
			if fr.Status != "OK" || !fr.Parsed || len(fr.Items) != len(batch) {
				// find the offender by asking one by one
				for _, q := range batch {
					f1, err := fetch(c, seq, q.Attr)
					if err != nil {
						return err
					}
					res.Evaluations++
					if f1.Status != "OK" || !f1.Parsed || len(f1.Items) != 1 {
						fail(sectionCanon(tree, q, "not answered"), fmt.Sprintf("%s: status=%s parsed=%v", q.Attr, f1.Status, f1.Parsed), info(q.Attr))
					} else if !bytes.Equal(f1.Items[0].Lit, q.Want) {
						fail(sectionCanon(tree, q, "wrong bytes"), fmt.Sprintf("%s returned %s, the part is %s", q.Attr, short(f1.Items[0].Lit), short(q.Want)), info(q.Attr))
					}
				}
				continue
			}
			for i, q := range batch {
				res.Evaluations++
				got := fr.Items[i]
				bad := ""
				if got.Name != q.Name {
					bad = fmt.Sprintf("item name %q, want %q", got.Name, q.Name)
				} else if !bytes.Equal(got.Lit, q.Want) {
					bad = fmt.Sprintf("%s returned %s, the part is %s", q.Attr, short(got.Lit), short(q.Want))
				}
				if bad != "" {
					fail(sectionCanon(tree, q, "wrong bytes"), bad, info(q.Attr))
					continue
				}
				if len(q.Want) > 0 && len(q.Want) < len(stored) {
					res.Nontrivial(fmt.Sprintf("%d:%s", seq, q.Attr))
				}
				if small {
					lines = append(lines, fmt.Sprintf("CSection %d %s %s %s %s (Some (slice %s %d %d))", nextID(), L, T, coqPath(q.Path), q.Spec, L, q.A, q.B))
					modelCases++
				}
			}
		}

		// ---- parts that do not exist: never OK with data of another part ----
		if !big {
			np := []int{len(tree.Children) + 2}
			if tree.IsMulti() {
				np = []int{len(tree.Children) + 1}
			} else if tree.IsMsg() && tree.Embedded != nil && tree.Embedded.IsMulti() {
				np = []int{len(tree.Embedded.Children) + 1}
			}
			attr := "BODY.PEEK[" + pathStr(np) + "]"
			f1, err := fetch(c, seq, attr)
			if err != nil {
				return err
			}
			res.Evaluations++
			if f1.Status == "OK" && len(f1.Items) > 0 {
				fail("NONEXISTENT-PART-ANSWERED "+shape, attr+" answered "+short(f1.Items[0].Lit), info(attr))
			} else if small {
				lines = append(lines, fmt.Sprintf("CSection %d %s %s %s SpBody None", nextID(), L, T, coqPath(np)))
				modelCases++
			}
		}

		// ---- HEADER.FIELDS / HEADER.FIELDS.NOT ----
		if !big {
			// the header field lines by construction: ID line + the generated lines
			idLine := stored[idAt : idAt+shift]
			names := append([]string{"X-Pm-Gluon-Id"}, tree.HNames...)
			hlines := append([][]byte{idLine}, tree.HLines...)
			for k := 0; k < 2; k++ {
				var fields []string
				for _, n := range names {
					// names with specials stay in the header (and must come back through FIELDS.NOT) but are not requested
					if rng.Chance(0.4) && reAtomName.MatchString(n) {
						f := n
						if rng.Chance(0.5) {
							f = strings.ToUpper(n)
						}
						fields = append(fields, f)
					}
				}
				if rng.Chance(0.5) {
					fields = append(fields, "X-Absent")
				}
				if len(fields) == 0 {
					fields = []string{"Subject"}
				}
				inF := func(n string) bool {
					for _, f := range fields {
						if strings.EqualFold(f, n) {
							return true
						}
					}
					return false
				}
				var wantIn, wantNot []byte
				for i, n := range names {
					if inF(n) {
						wantIn = append(wantIn, hlines[i]...)
					} else {
						wantNot = append(wantNot, hlines[i]...)
					}
				}
				wantIn = append(wantIn, tree.Blank...)
				wantNot = append(wantNot, tree.Blank...)
				fl := strings.Join(fields, " ")
				attrs := "BODY.PEEK[HEADER.FIELDS (" + fl + ")] BODY.PEEK[HEADER.FIELDS.NOT (" + fl + ")]"
				ctx.Current("FETCH "+attrs+" "+shape, info(attrs))
				fr, err := fetch(c, seq, attrs)
				if err != nil {
					return err
				}
				res.Evaluations += 2
				if fr.Status != "OK" || !fr.Parsed || len(fr.Items) != 2 {
					fail("FETCH-MALFORMED HEADER.FIELDS "+shape, fmt.Sprintf("status=%s parsed=%v", fr.Status, fr.Parsed), info(attrs))
					continue
				}
				okIn := bytes.Equal(fr.Items[0].Lit, wantIn)
				okNot := bytes.Equal(fr.Items[1].Lit, wantNot)
				if !okIn || !okNot {
					// shrink: which kind of header line is lost or duplicated
					what := fieldsDiagnosis(names, hlines, fields, fr.Items[0].Lit, fr.Items[1].Lit, tree.Blank)
					fail("HEADER.FIELDS-PARTITION "+what, fmt.Sprintf("fields (%s): FIELDS=%s FIELDS.NOT=%s; header lines %s", fl, short(fr.Items[0].Lit), short(fr.Items[1].Lit), short(bytes.Join(hlines, nil))), info(attrs))
					continue
				}
				res.Nontrivial(fmt.Sprintf("%d:fields:%s", seq, fl))
				if small && fieldCases < 60 {
					fieldCases += 2
					fs := make([]string, len(fields))
					for i, f := range fields {
						fs[i] = common.CoqBytes([]byte(f))
					}
					cf := "[" + strings.Join(fs, "; ") + "]"
					lines = append(lines, fmt.Sprintf("CSection %d %s %s [] (SpFields false %s) (Some %s)", nextID(), L, T, cf, common.CoqBytes(fr.Items[0].Lit)))
					lines = append(lines, fmt.Sprintf("CSection %d %s %s [] (SpFields true %s) (Some %s)", nextID(), L, T, cf, common.CoqBytes(fr.Items[1].Lit)))
					modelCases += 2
				}
			}
		}

		// ---- partials (sums that fit into int64; overflowing sums go to the child process below) ----
		SL := uint64(len(stored))
		offs := []uint64{0, 1, SL / 2, SL - 1, SL, SL + 1, 1 << 31, uint64(rng.Pick(len(stored) + 1))}
		cnts := []uint64{1, 2, SL / 2, SL - 1, SL, SL + 1, 1 << 31, uint64(rng.Pick(len(stored)) + 1)}
		if big {
			offs = []uint64{0, 262143, 262144, 262145, SL - 1}
			cnts = []uint64{1, 3, 262144, SL}
		}
		nPart := 6
		if big {
			nPart = 8
		}
		for k := 0; k < nPart; k++ {
			o := offs[rng.Pick(len(offs))]
			n := cnts[rng.Pick(len(cnts))]
			if n == 0 {
				n = 1
			}
			spec := fmt.Sprintf("%d.%d", o, n)
			attr := "BODY.PEEK[]<" + spec + ">"
			ctx.Current("FETCH "+attr+fmt.Sprintf(" len=%d", SL), info(attr))
			fr, err := fetch(c, seq, attr)
			if err != nil {
				return err
			}
			res.Evaluations++
			want := clip(stored, o, n)
			if fr.Status != "OK" || !fr.Parsed || len(fr.Items) != 1 {
				fail(fmt.Sprintf("PARTIAL-NOT-ANSWERED offset%s count%s", rel(o, SL), rel(n, SL)), fmt.Sprintf("%s: status=%s", attr, fr.Status), info(attr))
				continue
			}
			if fr.Items[0].Name != fmt.Sprintf("BODY[]<%d>", o) || !bytes.Equal(fr.Items[0].Lit, want) {
				fail(fmt.Sprintf("PARTIAL-NOT-SLICE offset%s count%s", rel(o, SL), rel(n, SL)), fmt.Sprintf("%s on %d bytes: item %s %s, want %s", attr, SL, fr.Items[0].Name, short(fr.Items[0].Lit), short(want)), info(attr))
				continue
			}
			if len(want) > 0 && len(want) < len(stored) {
				res.Nontrivial(fmt.Sprintf("%d:%s", seq, attr))
			}
			if small {
				a := o
				if a > SL {
					a = SL
				}
				lines = append(lines, fmt.Sprintf("CPartial %d %s %d %d (slice %s %d %d)", nextID(), L, o, n, L, a, a+uint64(len(want))))
				modelCases++
			}
		}
		if mi < 2 {
			res.Sample(map[string]interface{}{"shape": shape, "message": short(msg), "sections": len(reqs)})
		}
	}

	// ---- offset/count pairs at the end of the int64 range, including sums that overflow ----
	// message of the child: common.Message("overflow","0123456789") + ID line; the child returns BODY[] too.
	for _, spec := range []string{"1." + maxInt64, maxInt64 + ".1", maxInt64 + "." + maxInt64, "0." + maxInt64, "5.9223372036854775803", "9223372036854775806.2"} {
		canon := "FETCH BODY[]<" + spec + "> (offset+count at the end of the int64 range)"
		if ctx.Replay != "" && !strings.Contains(replayOverflow, "<"+spec+">") {
			continue
		}
		ctx.Current(canon, map[string]string{"request": "BODY.PEEK[]<" + spec + ">"})
		res.Evaluations++
		res.Count("overflow-probe")
		status, got, whole, crashed, detail, err := runOverflowProbe(spec)
		if err != nil {
			res.Infra("overflow probe %s: %v", spec, err)
			continue
		}
		if crashed || status == "CLOSED" {
			res.Fail("CRASH "+canon, "the server process died: "+detail, map[string]string{"request": "FETCH 1 (BODY.PEEK[]<" + spec + ">)"})
			break // the remaining pairs exercise the same addition; report the first one only
		}
		var o, n uint64
		fmt.Sscanf(spec, "%d.%d", &o, &n)
		want := clip(whole, o, n)
		if status != "OK" || !bytes.Equal(got, want) {
			res.Fail("PARTIAL-NOT-SLICE "+canon, fmt.Sprintf("status %s, got %s want %s", status, short(got), short(want)), map[string]string{"request": spec})
			continue
		}
		res.Nontrivial("overflow:" + spec)
		if len(whole) <= 400 {
			name := fmt.Sprintf("LO%d", modelCases)
			fmt.Fprintf(&defs, "Definition %s : bytes := %s.\n", name, common.CoqBytes(whole))
			lines = append(lines, fmt.Sprintf("CPartial %d %s %d %d %s", nextID(), name, o, n, common.CoqBytes(got)))
			modelCases++
		}
	}

	// ---- every way a message can enter a mailbox: RFC822.SIZE = len(BODY[]) = len(HEADER)+len(TEXT) ----
	if ctx.Replay == "" {
		for k := 0; k < ctx.Budget(2, 20); k++ {
			if err := sizeScenario(ctx); err != nil {
				return err
			}
		}
		// one MessagesCreated update with more messages than the database / store chunk size
		bulk := []int{db.ChunkLimit + 3}
		if ctx.Tier == "thorough" {
			bulk = []int{db.ChunkLimit - 1, db.ChunkLimit, db.ChunkLimit + 1, 2*db.ChunkLimit + 1}
		}
		for _, n := range bulk {
			if err := bulkScenario(ctx, n); err != nil {
				return err
			}
		}
		// literals without header fields through the connector and the Drafts path
		if err := headerlessScenario(ctx, &lines, nextID); err != nil {
			return err
		}
	}

	res.ModelCases = modelCases
	return common.WriteCases(ctx.Out, "Run.RunC13", "case", lines, defs.String())
}

// rel classifies a number relative to the literal length (for canonical failure names).
func rel(x, L uint64) string {
	switch {
	case x == 0:
		return "=0"
	case x < L:
		return "<len"
	case x == L:
		return "=len"
	case x <= L+1:
		return "=len+1"
	case x < 1<<31:
		return "<2^31"
	case x == 1<<31:
		return "=2^31"
	default:
		return ">2^31"
	}
}

// sectionCanon: canonical name of a failing section request: kind of the addressed part and of its container.
func sectionCanon(tree *mimegen.Node, q secReq, what string) string {
	// describe the addressed node by walking the path
	n := tree
	desc := []string{}
	for _, idx := range q.Path {
		switch {
		case n.IsMulti() && idx >= 1 && idx <= len(n.Children):
			n = n.Children[idx-1]
			desc = append(desc, typeOf(n))
			if n.IsMsg() && n.Embedded != nil && (n.Embedded.IsMulti()) {
				n = n.Embedded
			}
		case n.IsMsg() && n.Embedded != nil:
			n = n.Embedded
			desc = append(desc, "embedded:"+typeOf(n))
		default:
			desc = append(desc, "part1-of-"+typeOf(n))
		}
	}
	kw := q.Name[strings.LastIndexAny(q.Name, ".[")+1 : len(q.Name)-1]
	if _, err := strconv.Atoi(kw); err == nil || kw == "" {
		kw = "(part)"
	}
	if len(desc) > 2 {
		desc = desc[len(desc)-2:]
	}
	return fmt.Sprintf("SECTION %s %s of %s", what, kw, strings.Join(desc, ">"))
}

func typeOf(n *mimegen.Node) string {
	switch {
	case n.IsMulti():
		return "multipart"
	case n.IsMsg():
		if n.Embedded != nil && n.Embedded.IsMulti() {
			return "message/rfc822(multipart)"
		}
		return "message/rfc822(single)"
	default:
		return "leaf"
	}
}

// fieldsDiagnosis names the first header line that is lost, cut or duplicated.
func fieldsDiagnosis(names []string, hlines [][]byte, fields []string, gotIn, gotNot, blank []byte) string {
	inF := func(n string) bool {
		for _, f := range fields {
			if strings.EqualFold(f, n) {
				return true
			}
		}
		return false
	}
	for i, n := range names {
		line := hlines[i]
		cIn := bytes.Count(gotIn, line)
		cNot := bytes.Count(gotNot, line)
		kind := "field"
		v := bytes.TrimSpace(line[bytes.IndexByte(line, ':')+1:])
		if len(v) == 0 {
			kind = "field-with-empty-value"
		} else if bytes.Contains(bytes.TrimRight(line, "\r\n"), []byte("\n")) {
			kind = "folded-field"
		}
		want := [2]int{0, 1}
		if inF(n) {
			want = [2]int{1, 0}
		}
		if cIn < want[0] || cNot < want[1] {
			return kind + " lost or cut"
		}
		if (want[0] == 0 && cIn > 0 && !bytes.Contains(blank, line)) || (want[1] == 0 && cNot > 0 && !bytes.Contains(blank, line)) {
			return kind + " in the wrong list"
		}
	}
	return "blank line or order"
}
