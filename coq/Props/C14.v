(* C14 — Mailbox namespace and LIST/LSUB follow the reference hierarchy model.
   Property theorems only; every proof is `exact <lemma>` and is followed by Print Assumptions.
   d is the hierarchy delimiter (any byte); names and patterns are byte lists after modified-UTF-7 decoding.
   The empty delimiter (gluon.WithDelimiter(""), flat namespace) is the model at NODELIM, a byte that occurs in no
   name: every theorem below holds for it, and the section "flat namespace" shows that there the model is flat. *)
From Coq Require Import List NArith Bool.
From Gluon Require Import Model.MboxNames Model.WildcardSpec Model.MboxNamespace Model.MboxMatch Model.MboxFlat.
From Gluon Require Import Proofs.MboxNamesProofs Proofs.MboxMatchProofs Proofs.MboxListProofs.
From Gluon Require Import Proofs.MboxNamespaceProofs Proofs.MboxRefineProofs Proofs.MboxRenameProofs Proofs.MboxFlatProofs.
Import ListNotations.
Open Scope N_scope.

(* ---------- names: Split/Join computes the hierarchy ---------- *)
(* listSuperiors (Split, Join of the first i levels) yields exactly the names p with  name = p <delim> rest *)
Theorem C14_superiors_exact : forall d n p, In p (list_superiors d n) <-> is_superior d p n.
Proof. exact list_superiors_spec. Qed.
Print Assumptions C14_superiors_exact.

(* ... which are the joins of the proper, non-empty prefixes of the list of levels of the name *)
Theorem C14_superior_iff_levels : forall d p n,
  is_superior d p n <-> exists i, (1 <= i < length (mb_split d n))%nat /\ p = mb_join d (firstn i (mb_split d n)).
Proof. exact superior_iff_levels. Qed.
Print Assumptions C14_superior_iff_levels.

Theorem C14_join_split : forall d s, mb_join d (mb_split d s) = s.
Proof. exact mb_join_split. Qed.
Print Assumptions C14_join_split.

(* ---------- match(): the regular expression against RFC 3501 matching, every delimiter ---------- *)
(* The expression built from reference+pattern, run leftmost-first, returns a name whole exactly when RFC 3501
   matching selects it (anchored or not). *)
Theorem C14_match_sound_complete : forall d ref pat name, pat <> [] ->
  (impl_match d ref pat name = Some name <-> wm d (list_pattern d ref pat) name).
Proof. exact impl_match_iff. Qed.
Print Assumptions C14_match_sound_complete.

(* Whatever it returns is a name that RFC matching selects: the candidate itself or, for a pattern ending in %,
   a superior of the candidate (the match stops right before a delimiter). *)
Theorem C14_match_result : forall d ref pat cand m, pat <> [] -> impl_match d ref pat cand = Some m ->
  wm d (list_pattern d ref pat) m /\ (m = cand \/ (ends_pct pat = true /\ is_superior d m cand)).
Proof. exact impl_match_sound. Qed.
Print Assumptions C14_match_result.

(* the matcher level: leftmost-first with greedy stars returns the LONGEST matching prefix for this class *)
Theorem C14_leftmost_first_is_longest : forall d p s q x rest,
  rmatch false d (compile p) s = Some q -> s = x ++ rest -> wm d p x -> (length x <= length q)%nat.
Proof. exact rmatch_longest. Qed.
Print Assumptions C14_leftmost_first_is_longest.

Theorem C14_matcher_none_iff_no_prefix : forall anch d p s, rmatch anch d (compile p) s = None ->
  forall q rest, s = q ++ rest -> (anch = true -> rest = []) -> ~ wm d p q.
Proof. exact rmatch_none. Qed.
Print Assumptions C14_matcher_none_iff_no_prefix.

(* the relation and the recursive function on characters agree *)
Theorem C14_wildcard_function : forall d p s, wmatchb d p s = true <-> wm d p s.
Proof. exact wmatchb_wm. Qed.
Print Assumptions C14_wildcard_function.

(* the empty pattern: matchRoot returns the root of the reference (up to and including the first delimiter) *)
Theorem C14_root : forall d ref, match_root d ref = spec_root d ref.
Proof. exact match_root_spec. Qed.
Print Assumptions C14_root.

(* ---------- LIST and LSUB are exact ---------- *)
(* For every state with distinct offered names (every well-formed state, see C14_offered_distinct), every reference and
   every non-empty pattern: getMatches returns each name once, and returns (name, selectable) exactly when RFC
   matching selects the name and it is an offered name (mailbox for LIST; subscribed name for LSUB) or — \Noselect —
   only a superior of one (for LSUB: only if the pattern ends in %).  The reference is a mailbox name to the command
   parser: a reference that is INBOX in any spelling stands for INBOX (parse_mailbox). *)
Theorem C14_list_exact : forall d st ref pat, NoDup (offered st false) -> pat <> [] ->
  NoDup (map fst (impl_list d st false ref pat)) /\
  forall m sel, In (m, sel) (impl_list d st false ref pat) <-> spec_listed d st false (parse_mailbox ref) pat m sel.
Proof. exact (fun d st => list_exact_lemma d st false). Qed.
Print Assumptions C14_list_exact.

Theorem C14_lsub_exact : forall d st ref pat, NoDup (offered st true) -> pat <> [] ->
  NoDup (map fst (impl_list d st true ref pat)) /\
  forall m sel, In (m, sel) (impl_list d st true ref pat) <-> spec_listed d st true (parse_mailbox ref) pat m sel.
Proof. exact (fun d st => list_exact_lemma d st true). Qed.
Print Assumptions C14_lsub_exact.

Theorem C14_offered_distinct : forall st lsub, ns_wf st -> NoDup (offered st lsub).
Proof. exact offered_nodup. Qed.
Print Assumptions C14_offered_distinct.

(* ---------- the namespace ---------- *)
(* After any history of session commands and connector updates the state is well-formed: mailbox names unique,
   identities unique, no outlived subscription for a name that is a mailbox. *)
Theorem C14_names_unique : forall d ops, NoDup (names_of (st_rows (fst (impl_run d ns_init ops)))).
Proof. exact names_unique. Qed.
Print Assumptions C14_names_unique.

Theorem C14_state_wellformed : forall d ops, ns_wf (fst (impl_run d ns_init ops)).
Proof. exact run_wf. Qed.
Print Assumptions C14_state_wellformed.

(* Refinement of the reference hierarchy.  CREATE (Split/Join superiors, TrimRight, a sequence of INSERTs) and
   DELETE are the reference operations in every state: *)
Theorem C14_create_refines : forall d st raw, delim_ok d -> impl_create d st raw = spec_create d st raw.
Proof. exact create_refines. Qed.
Print Assumptions C14_create_refines.

Theorem C14_delete_refines : forall d st raw, delim_ok d -> ns_wf st -> impl_delete d st raw = spec_delete d st raw.
Proof. exact delete_refines. Qed.
Print Assumptions C14_delete_refines.

(* RENAME — Split/Join superiors, parents created first, then one UPDATE per inferior in ascending length order, each
   under the UNIQUE(name) constraint — is the reference RENAME (one simultaneous substitution, refused iff two
   mailboxes would get the same name), in every well-formed state and for every pair of names, including renames up
   or down the mailbox's own branch. *)
Theorem C14_rename_refines : forall d st rawo rawn, delim_ok d -> ns_wf st ->
  impl_rename d st rawo rawn = spec_rename d st rawo rawn.
Proof. exact rename_refines. Qed.
Print Assumptions C14_rename_refines.

(* the state and the answers after any history of session commands and connector updates are those of the reference *)
Theorem C14_namespace_refines : forall d ops, delim_ok d -> impl_run d ns_init ops = spec_run d ns_init ops.
Proof. exact run_refines. Qed.
Print Assumptions C14_namespace_refines.

(* RENAME carries inferiors along: every mailbox keeps identity and subscription; old -> new, old<d>rest -> new<d>rest *)
Theorem C14_rename_carries_inferiors : forall d st rawo rawn st', delim_ok d -> ns_wf st ->
  impl_rename d st rawo rawn = (st', ROk) ->
  let o := canon_first d rawo in
  let n := trim_suffix d (canon_first d rawn) in
  name_eqb o INBOX = false ->
  forall r, In r (st_rows st) -> In (mkRow (m_id r) (spec_moved d o n (m_name r)) (m_sub r)) (st_rows st').
Proof. exact rename_carries_inferiors. Qed.
Print Assumptions C14_rename_carries_inferiors.

(* CREATE makes missing parents: the mailbox and every superior exist afterwards, nothing disappears *)
Theorem C14_create_makes_parents : forall d st raw st', delim_ok d -> impl_create d st raw = (st', ROk) ->
  let n := trim_suffix d (canon_first d raw) in
  In n (names_of (st_rows st')) /\ (forall p, is_superior d p n -> In p (names_of (st_rows st'))) /\
  (forall r, In r (st_rows st) -> In r (st_rows st')).
Proof. exact create_makes_parents. Qed.
Print Assumptions C14_create_makes_parents.

(* the reference RENAME carries the inferiors along: every mailbox keeps identity and subscription and gets the name
   spec_moved gives it (old -> new, old<d>rest -> new<d>rest, anything else unchanged) *)
Theorem C14_reference_rename_carries_inferiors : forall d st rawo rawn st', spec_rename d st rawo rawn = (st', ROk) ->
  let o := canon_first d rawo in
  let n := trim_suffix d (canon_first d rawn) in
  name_eqb o INBOX = false ->
  forall r, In r (st_rows st) -> In (mkRow (m_id r) (spec_moved d o n (m_name r)) (m_sub r)) (st_rows st').
Proof. exact spec_rename_carries. Qed.
Print Assumptions C14_reference_rename_carries_inferiors.

Theorem C14_spec_moved_inferior : forall d o n rest, spec_moved d o n (o ++ d :: rest) = n ++ d :: rest.
Proof. exact spec_moved_inferior. Qed.
Print Assumptions C14_spec_moved_inferior.

Theorem C14_reference_rename_inbox : forall d st rawo rawn st', spec_rename d st rawo rawn = (st', ROk) ->
  name_eqb (canon_first d rawo) INBOX = true ->
  (forall r, In r (st_rows st) -> In r (st_rows st')) /\
  In (trim_suffix d (canon_first d rawn)) (names_of (st_rows st')).
Proof. exact spec_rename_inbox. Qed.
Print Assumptions C14_reference_rename_inbox.

(* INBOX is case-insensitive: a command acts on the canonical spelling of its names ... *)
Theorem C14_inbox_case_insensitive : forall d st op, delim_ok d -> impl_step d st (op_canon d op) = impl_step d st op.
Proof. exact step_canon. Qed.
Print Assumptions C14_inbox_case_insensitive.

(* ... every spelling of INBOX, alone or as the first level, has the same canonical spelling ... *)
Theorem C14_inbox_spellings : forall d n rest, delim_ok d -> mb_eqfold n INBOX = true ->
  canon_first d n = INBOX /\ canon_first d (n ++ d :: rest) = INBOX ++ d :: rest.
Proof. exact (fun d n rest D E => conj (canon_first_inbox d n D E) (canon_first_inbox_child d n rest D E)). Qed.
Print Assumptions C14_inbox_spellings.

(* ... INBOX cannot be created or deleted, and no sequence of session commands removes or renames it away *)
Theorem C14_inbox_refuses : forall d st n, mb_eqfold (canon_first d n) INBOX = true ->
  impl_step d st (ODelete n) = (st, RNo) /\ impl_step d st (OCreate n) = (st, RNo).
Proof. exact inbox_refuses. Qed.
Print Assumptions C14_inbox_refuses.

Theorem C14_inbox_undeletable : forall d ops, ~ In d INBOX -> forallb is_session_op ops = true ->
  row_kept INBOX_ID INBOX (fst (impl_run d ns_init ops)).
Proof. exact inbox_undeletable. Qed.
Print Assumptions C14_inbox_undeletable.

(* the recovery mailbox: it survives every history (session commands and connector updates), and DELETE, RENAME from
   or onto it and CREATE are refused in every spelling *)
Theorem C14_recovery_protected : forall d ops, ~ In d RECOVERY ->
  row_kept REC_ID RECOVERY (fst (impl_run d ns_init ops)).
Proof. exact recovery_protected. Qed.
Print Assumptions C14_recovery_protected.

Theorem C14_recovery_refuses : forall d st n x, mb_eqfold (canon_first d n) RECOVERY = true ->
  impl_step d st (ODelete n) = (st, RNo) /\ impl_step d st (ORename n x) = (st, RNo) /\
  impl_step d st (OCreate n) = (st, RNo) /\ impl_step d st (ORename x n) = (st, RNo).
Proof. exact recovery_refuses. Qed.
Print Assumptions C14_recovery_refuses.

(* ---------- flat namespace: the empty delimiter ---------- *)
(* With no delimiter a pattern matches a name iff the wildcard match of the whole strings succeeds — "*" and "%" both
   match any characters — with INBOX (as the whole of reference+pattern) case-insensitive. *)
Theorem C14_flat_match_sound_complete : forall ref pat name, pat <> [] ->
  ~ In NODELIM (ref ++ pat) -> ~ In NODELIM name ->
  (impl_match NODELIM ref pat name = Some name <-> wmf (flat_pattern ref pat) name).
Proof. exact flat_match_iff. Qed.
Print Assumptions C14_flat_match_sound_complete.

(* match() returns the whole name or nothing (there is no superior to stop at) *)
Theorem C14_flat_match_whole : forall ref pat name m, pat <> [] -> ~ In NODELIM name ->
  impl_match NODELIM ref pat name = Some m -> m = name.
Proof. exact flat_match_whole. Qed.
Print Assumptions C14_flat_match_whole.

(* the expression the code builds for the empty delimiter ("%" as ".*") gives what the model's [^<NODELIM>]* gives *)
Theorem C14_flat_match_code : forall ref pat name, pat <> [] -> ~ In NODELIM name ->
  impl_match NODELIM ref pat name =
  rmatch (negb (ends_pct pat)) NODELIM (compile_flat (list_pattern NODELIM ref pat)) name.
Proof. exact flat_match_code. Qed.
Print Assumptions C14_flat_match_code.

Theorem C14_flat_wildcards : forall d p s, ~ In d s -> (wm d p s <-> wmf p s).
Proof. exact wm_wmf. Qed.
Print Assumptions C14_flat_wildcards.

(* no hierarchy: no superiors, only a whole name is INBOX, no delimiter rules for new names, RENAME moves one
   mailbox, the root of every reference is empty *)
Theorem C14_flat_no_hierarchy : forall d n, ~ In d n ->
  list_superiors d n = [] /\ canon_first d n = parse_mailbox n /\
  mb_begins d n = false /\ mb_adjacent d n = false /\ mb_ends d n = false /\ trim_suffix d n = n /\
  match_root d n = [].
Proof.
  exact (fun d n H => conj (flat_no_superiors d n H) (conj (flat_canon d n H)
          (match flat_name_rules d n H with conj a (conj b (conj c e)) => conj a (conj b (conj c (conj e (flat_root d n H)))) end))).
Qed.
Print Assumptions C14_flat_no_hierarchy.

Theorem C14_flat_rename_moves_one : forall d o names, (forall x, In x names -> ~ In d x) -> rename_order d o names = [].
Proof. exact flat_rename_order. Qed.
Print Assumptions C14_flat_rename_moves_one.

(* LIST/LSUB in the flat namespace: exactly the offered names that match, never a \Noselect parent *)
Theorem C14_flat_list_exact : forall st lsub ref pat m sel, NoDup (offered st lsub) -> pat <> [] ->
  (forall n, In n (offered st lsub) -> ~ In NODELIM n) ->
  (In (m, sel) (flat_list st lsub ref pat) <->
   wm NODELIM (list_pattern NODELIM (parse_mailbox ref) pat) m /\ In m (offered st lsub) /\ sel = offered_selectable st lsub m).
Proof. exact flat_listed. Qed.
Print Assumptions C14_flat_list_exact.

(* the side conditions of the namespace theorems hold at NODELIM *)
Theorem C14_flat_side_conditions : delim_ok NODELIM /\ ~ In NODELIM INBOX /\ ~ In NODELIM RECOVERY.
Proof. exact nodelim_ok. Qed.
Print Assumptions C14_flat_side_conditions.

(* ---------- non-vacuity ---------- *)
(* delimiter "\" (92): pattern a\%  on  a\b\c  returns the superior a\b ; "*" crosses a line feed *)
Example C14_match_example :
  impl_match 92 [] [97;92;37] [97;92;98;92;99] = Some [97;92;98]
  /\ impl_match 47 [] [42] [120;10;121] = Some [120;10;121]
  /\ impl_match 47 [102;111;111;47] [105;110;98;111;120] [102;111;111;47;105;110;98;111;120] = Some [102;111;111;47;105;110;98;111;120]
  /\ impl_match 47 [] [105;110;98;111;120;47;37] [73;78;66;79;88;47;120] = Some [73;78;66;79;88;47;120].
Proof. vm_compute. repeat split. Qed.

(* moving up the own branch: a/z -> a with inferiors a/z/z/b and a/z/b (the order of the UPDATEs matters here) *)
Example C14_move_up_example :
  names_of (st_rows (fst (impl_run 47 ns_init
     [OCreate [97;47;122;47;122;47;98]; OCreate [97;47;122;47;98]; ODelete [97]; ORename [97;47;122] [97]])))
  = [INBOX; RECOVERY; [97]; [97;47;122]; [97;47;122;47;98]; [97;47;98]]
  /\ snd (impl_run 47 ns_init
     [OCreate [97;47;122;47;122;47;98]; OCreate [97;47;122;47;98]; ODelete [97]; ORename [97;47;122] [97]])
  = [ROk; ROk; ROk; ROk].
Proof. vm_compute. split; reflexivity. Qed.

(* a history: CREATE a/b/c (parents made), DELETE a, RENAME a/b x (inferior carried), connector rename, UNSUBSCRIBE;
   delimiter "/" satisfies the side conditions of the theorems above *)
Example C14_history_example :
  let d := 47 in
  delim_ok d /\ ~ In d INBOX /\ ~ In d RECOVERY /\
  snd (impl_run d ns_init [OCreate [97;47;98;47;99]; ODelete [97]; ORename [97;47;98] [120]; OUnsub [97];
                           OConnRename 4 [[121]]; ODelete [105;110;98;111;120]])
    = [ROk; ROk; ROk; ROk; ROk; RNo]
  /\ names_of (st_rows (fst (impl_run d ns_init [OCreate [97;47;98;47;99]; ODelete [97]; ORename [97;47;98] [120]])))
    = [INBOX; RECOVERY; [120]; [120;47;99]].
Proof. vm_compute. repeat split; intros H; repeat (destruct H as [H|H]; try discriminate H); auto. Qed.

(* flat namespace: "inbox" and "inb"+"OX" find INBOX, "%" matches like "*" across what would be a level elsewhere *)
Example C14_flat_example :
  impl_match NODELIM [] [105;110;98;111;120] INBOX = Some INBOX
  /\ impl_match NODELIM [105;110;98] [79;88] INBOX = Some INBOX
  /\ impl_match NODELIM [] [97;37] [97;47;98;47;99] = Some [97;47;98;47;99]
  /\ flat_list ns_init false [] [105;78;98;79;120] = [(INBOX, true)]
  /\ snd (flat_step ns_init (OCreate [97;47;98])) = ROk
  /\ names_of (st_rows (fst (flat_step ns_init (OCreate [97;47;98])))) = [INBOX; RECOVERY; [97;47;98]].
Proof. vm_compute. repeat split. Qed.
