package main

// C06 harness: connector updates are applied as described, acknowledged exactly once, and idempotent on replay.
// Drives the real backend through a scriptable connector (hconn) + IMAP wire; evaluates the property oracle on
// wire views / acknowledgements / observer sessions; emits the cases for the Coq model (coq/Model/ConnUpdates.v).

import (
	"context"
	"errors"
	"fmt"
	"sort"
	"strings"
	"time"

	"github.com/ProtonMail/gluon"
	"github.com/ProtonMail/gluon/imap"
	"github.com/ProtonMail/gluon/verifhook"

	"verifharness/common"
	"verifharness/hconn"
	"verifharness/imapc"
	"verifharness/srv"
)

var fixedDate = time.Date(2024, 1, 1, 10, 0, 0, 0, time.UTC)

func main() { common.Main("C06", runC06) }

type counterGen struct{ n uint32 }

func (g *counterGen) Generate() (imap.UID, error) {
	g.n++
	return imap.UID(g.n), nil
}

type observer struct {
	c     *imapc.Client
	mbox  string
	state int64
}

type stepRec struct {
	ID     int    `json:"id"`
	Tag    string `json:"tag"` // fresh | dup | restate | invalid | script
	Upd    *upd   `json:"update"`
	Ack    string `json:"ack"`
	AckErr string `json:"ack_err,omitempty"`
	Before string `json:"before"`
	After  string `json:"after"`
	Expect string `json:"expect,omitempty"`
	Hist   string `json:"history,omitempty"`
}

type world struct {
	ctx    *common.Ctx
	s      *srv.Server
	conn   *hconn.Conn
	cap    *capIface
	gen    *counterGen
	cmd    *imapc.Client
	viewer *imapc.Client
	obs    []*observer
	litOf  map[string]string // internal message id -> marker
	nextID int
	hist   []string // canonical history of the episode (for replays)
	lines  []string // Coq cases
	em     *emitter
	nMark  int
	nRID   int
	nMb    int
	epi    int
	maxMb  uint64 // highest internal mailbox id seen so far (AUTOINCREMENT never reuses one)
}

const ackTimeout = 60 * time.Second

var errEpisodeOver = errors.New("episode ended after an oracle failure")

func (w *world) marker() string { w.nMark++; return fmt.Sprintf("m%d-%d", w.epi, w.nMark) }
func (w *world) newRID() string { w.nRID++; return fmt.Sprintf("r%d", w.nRID) }
func (w *world) newMbRID() string {
	w.nMb++
	return fmt.Sprintf("b%d", w.nMb)
}

func startWorld(ctx *common.Ctx, epi int, em *emitter) (*world, error) {
	verifhook.Reset()
	w := &world{ctx: ctx, cap: &capIface{inner: gluon.VerifSQLiteClientInterface()}, gen: &counterGen{n: 1000}, litOf: map[string]string{}, em: em, epi: epi}
	s, err := srv.Start(srv.Options{DB: w.cap, UIDValidity: w.gen})
	if err != nil {
		return nil, err
	}
	w.s = s
	w.conn = s.Conn0()
	if w.cap.client == nil {
		return nil, fmt.Errorf("db client not captured")
	}
	c, err := s.Login()
	if err != nil {
		return nil, err
	}
	w.cmd = c
	if w.viewer, err = s.Login(); err != nil {
		return nil, err
	}
	recoveryIID = 0
	s0, err := readSnap(w.cap.client)
	if err != nil {
		return nil, err
	}
	if r := s0.mbByRID(recoveryRID); r != nil {
		recoveryIID = r.IID
	} else {
		return nil, fmt.Errorf("no recovery mailbox in a fresh database")
	}
	return w, nil
}

// the recovery mailbox is a fixed object of the server: it is recognised by its remote id AND by the internal id it
// had when the server started (an update must not be able to re-label it into an ordinary mailbox)
var recoveryIID uint64

func isRecovery(mb *dbMb) bool {
	return mb != nil && (mb.RID == recoveryRID || (recoveryIID != 0 && mb.IID == recoveryIID))
}

func (w *world) stop() {
	for _, o := range w.obs {
		o.c.Close()
	}
	if w.cmd != nil {
		w.cmd.Close()
	}
	if w.viewer != nil {
		w.viewer.Close()
	}
	w.s.Stop()
}

func (w *world) addObserver(mbox string) error {
	c, err := w.s.Login()
	if err != nil {
		return err
	}
	st := verifhook.CurrentStateID()
	if _, err := okCmd(c, "SELECT "+imapc.Quote(mbox)); err != nil {
		c.Close()
		return err
	}
	w.obs = append(w.obs, &observer{c: c, mbox: mbox, state: st})
	return nil
}

// drainObserver waits until the session has applied everything queued for it and returns the untagged
// EXISTS/EXPUNGE/FETCH lines of a NOOP. alive=false if the session was invalidated.
func (w *world) drainObserver(o *observer) (evs []string, alive bool) {
	verifhook.WaitQuiet(o.state, 20*time.Second)
	r, err := o.c.Cmd("NOOP")
	if err != nil || r.Status != "OK" {
		return nil, false
	}
	// a second round: responders pushed while the first NOOP was flushing
	verifhook.WaitQuiet(o.state, 20*time.Second)
	r2, err := o.c.Cmd("NOOP")
	if err != nil || r2.Status != "OK" {
		return nil, false
	}
	for _, e := range append(imapc.Evs(r), imapc.Evs(r2)...) {
		switch e.Kind {
		case "EXISTS", "EXPUNGE", "FETCH":
			evs = append(evs, strings.TrimPrefix(e.Raw, "* "))
		}
	}
	return evs, true
}

// observerMessages: what the observing session shows for its mailbox (UID and flags of every message).
func observerMessages(o *observer) ([]vmsg, bool) {
	r, err := o.c.Cmd("UID FETCH 1:* (UID FLAGS)")
	if err != nil || r.Status != "OK" {
		return nil, false
	}
	var ms []vmsg
	for _, e := range imapc.Evs(r) {
		if e.Kind == "FETCH" && e.HasFl {
			ms = append(ms, vmsg{UID: e.UID, Flags: normFlags(e.Flags)})
		}
	}
	sort.Slice(ms, func(i, j int) bool { return ms[i].UID < ms[j].UID })
	// one entry per message (a flag change announced during the FETCH repeats the message)
	var out []vmsg
	for _, m := range ms {
		if len(out) > 0 && out[len(out)-1].UID == m.UID {
			out[len(out)-1] = m
			continue
		}
		out = append(out, m)
	}
	return out, true
}

func (w *world) reviveObservers(snap *dbSnap) {
	var keep []*observer
	for _, o := range w.obs {
		if _, alive := w.drainObserver(o); alive && snap.mbByName(o.mbox) != nil {
			keep = append(keep, o)
			continue
		}
		o.c.Close()
	}
	w.obs = keep
	have := map[string]bool{}
	for _, o := range w.obs {
		have[o.mbox] = true
	}
	// observe up to three mailboxes, the fullest first
	var cands []*dbMb
	for _, mb := range snap.Mb {
		if !isRecovery(mb) && !have[mb.Name] {
			cands = append(cands, mb)
		}
	}
	sort.SliceStable(cands, func(i, j int) bool { return len(cands[i].Rows) > len(cands[j].Rows) })
	for _, mb := range cands {
		if len(w.obs) >= 3 {
			break
		}
		if err := w.addObserver(mb.Name); err == nil {
			have[mb.Name] = true
		}
	}
}

// pushOnce submits the update and checks the acknowledgement protocol: exactly one completion (nil = closed
// without a value, or one error value followed by the close).
func (w *world) pushOnce(u imap.Update) (ack string, ackErr string, protoFail string) {
	w.conn.PushAsync(u)
	c1, cancel := context.WithTimeout(context.Background(), ackTimeout)
	defer cancel()
	done := make(chan struct{})
	var err error
	var ok bool
	go func() { err, ok = u.WaitContext(c1); close(done) }()
	<-done
	if c1.Err() != nil {
		return "none", "", "update not acknowledged within 60s"
	}
	if !ok {
		if err != nil {
			return "ok", "", "waiter closed but returned an error value"
		}
		// closed without a value: success. A second read must still report closed.
		c2, cancel2 := context.WithTimeout(context.Background(), 5*time.Second)
		defer cancel2()
		if e2, ok2 := u.WaitContext(c2); ok2 || e2 != nil {
			return "ok", "", fmt.Sprintf("second completion after success: %v", e2)
		}
		return "ok", "", ""
	}
	if err == nil {
		return "err", "", "completion value is a nil error"
	}
	c2, cancel2 := context.WithTimeout(context.Background(), 10*time.Second)
	defer cancel2()
	e2, ok2 := u.WaitContext(c2)
	if c2.Err() != nil {
		return "err", err.Error(), "waiter not closed after the error value"
	}
	if ok2 {
		return "err", err.Error(), fmt.Sprintf("second completion value: %v", e2)
	}
	return "err", err.Error(), ""
}

func viewOf(s *dbSnap, litOf map[string]string) *wview {
	v := &wview{Boxes: map[string]*mview{}}
	for _, mb := range s.Mb {
		if isRecovery(mb) && len(mb.Rows) == 0 {
			continue
		}
		if mb.Sub {
			v.LSub = append(v.LSub, mb.Name)
		}
		mv := &mview{Name: mb.Name, UIDV: mb.UIDV, Next: mb.Next, Exists: len(mb.Rows), Flags: mb.Flags, Perm: mb.Perm, Attrs: mb.Attrs}
		for _, r := range mb.Rows {
			fl := []string{}
			if m := s.msByIID(r.Msg); m != nil {
				fl = append(fl, m.Flags...)
			}
			if r.Deleted {
				fl = append(fl, `\deleted`)
			}
			mv.Msgs = append(mv.Msgs, vmsg{UID: r.UID, IID: r.Msg, Marker: litOf[r.Msg], Flags: normFlags(fl)})
		}
		v.Boxes[mb.Name] = mv
	}
	for _, d := range s.DSub {
		dup := false
		for _, x := range v.LSub {
			if x == d[0] {
				dup = true
			}
		}
		if !dup {
			v.LSub = append(v.LSub, d[0])
		}
	}
	sort.Strings(v.LSub)
	return v
}

// diffViews compares an expected view with the wire view; returns "" when equal.
func diffViews(exp, got *wview, checkSHA bool) string {
	var d []string
	for n, e := range exp.Boxes {
		g, ok := got.Boxes[n]
		if !ok {
			d = append(d, "mailbox "+n+" missing")
			continue
		}
		if e.UIDV != g.UIDV {
			d = append(d, fmt.Sprintf("%s: UIDVALIDITY %d, expected %d", n, g.UIDV, e.UIDV))
		}
		if e.Next != g.Next {
			d = append(d, fmt.Sprintf("%s: UIDNEXT %d, expected %d", n, g.Next, e.Next))
		}
		if fmt.Sprint(e.Flags) != fmt.Sprint(g.Flags) {
			d = append(d, fmt.Sprintf("%s: FLAGS %v, expected %v", n, g.Flags, e.Flags))
		}
		if fmt.Sprint(e.Perm) != fmt.Sprint(g.Perm) {
			d = append(d, fmt.Sprintf("%s: PERMANENTFLAGS %v, expected %v", n, g.Perm, e.Perm))
		}
		if fmt.Sprint(stored(e.Attrs)) != fmt.Sprint(stored(g.Attrs)) {
			d = append(d, fmt.Sprintf("%s: LIST attributes %v, expected %v", n, g.Attrs, e.Attrs))
		}
		es, gs := msgsString(e.Msgs), msgsString(g.Msgs)
		if es != gs {
			d = append(d, fmt.Sprintf("%s: messages %s, expected %s", n, gs, es))
		}
		if checkSHA {
			for _, m := range g.Msgs {
				if m.Marker != "" && m.SHA != litSHA(literalOf(m.Marker)) {
					d = append(d, fmt.Sprintf("%s: uid %d literal bytes differ from the literal of %s", n, m.UID, m.Marker))
				}
			}
		}
	}
	for n := range got.Boxes {
		if _, ok := exp.Boxes[n]; !ok {
			d = append(d, "unexpected mailbox "+n)
		}
	}
	if fmt.Sprint(exp.LSub) != fmt.Sprint(got.LSub) {
		d = append(d, fmt.Sprintf("LSUB %v, expected %v", got.LSub, exp.LSub))
	}
	sort.Strings(d)
	return strings.Join(d, "; ")
}

// stored drops the attributes LIST computes itself; what is left are the attributes kept for the mailbox.
func stored(attrs []string) []string {
	out := []string{}
	for _, a := range attrs {
		switch a {
		case `\noselect`, `\marked`, `\unmarked`, `\hasnochildren`, `\haschildren`, `\subscribed`:
		default:
			out = append(out, a)
		}
	}
	return out
}

func msgsString(ms []vmsg) string {
	var p []string
	for _, m := range ms {
		p = append(p, fmt.Sprintf("%d=%s%v", m.UID, m.Marker, m.Flags))
	}
	return "[" + strings.Join(p, " ") + "]"
}

func (w *world) learn(v *wview) {
	for _, b := range v.Boxes {
		for _, m := range b.Msgs {
			if m.IID != "" && m.Marker != "" {
				w.litOf[m.IID] = m.Marker
			}
		}
	}
}

// step pushes one update and evaluates the oracle. tag: fresh | dup | restate | invalid | script.
func (w *world) step(u *upd, tag string) (*stepRec, error) {
	ctx := w.ctx
	res := ctx.Res
	w.nextID++
	rec := &stepRec{ID: w.nextID, Tag: tag, Upd: u}
	canon := strings.Join(append(append([]string{}, w.hist...), tag+":"+u.canon()), " ; ")
	rec.Hist = canon
	ctx.Current(canon, rec)

	vBefore, err := freshView(w.viewer)
	if err != nil {
		return nil, fmt.Errorf("view before: %w", err)
	}
	w.learn(vBefore)
	before, err := readSnap(w.cap.client)
	if err != nil {
		return nil, err
	}
	// the wire view and the snapshot must describe the same state (sanity of the harness' own reading)
	if d := diffViews(viewOf(before, w.litOf), vBefore, false); d != "" {
		if len(res.Failures) > 0 {
			// an earlier step of this episode already failed the oracle (e.g. a listed message cannot be fetched): the
			// episode ends here, the failure is what gets reported
			return nil, fmt.Errorf("%w: %s", errEpisodeOver, d)
		}
		// no earlier step was judged a failure, yet the sessions no longer show what the database holds: the updates
		// acknowledged so far (the history) led there. Reported as a failure of the property with that history as the
		// input; the episode ends.
		past := strings.Join(w.hist, " ; ")
		res.Fail("wire-view-differs-from-database | after: "+past, "what a fresh session shows differs from the database after the acknowledged history: "+d+" | database: "+snapString(before, w.litOf), rec)
		return nil, fmt.Errorf("%w: %s", errEpisodeOver, d)
	}
	w.reviveObservers(before)
	for _, o := range w.obs {
		w.drainObserver(o)
	}
	rec.Before = snapString(before, w.litOf)
	for _, mb := range before.Mb {
		if mb.IID > w.maxMb {
			w.maxMb = mb.IID
		}
	}

	gen0 := int(w.gen.n)
	exp := refApply(before, u, gen0+1, w.litOf)
	io, err := u.build("/")
	if err != nil {
		return nil, err
	}
	ack, ackErr, proto := w.pushOnce(io)
	rec.Ack, rec.AckErr = ack, ackErr
	fail := func(what, detail string) {
		// canonical: the failing step and the state it was applied to; the history that built the state is in the case
		res.Fail(what+" | "+tag+":"+u.canon()+" | state: "+rec.Before, detail+" | history: "+canon, rec)
	}
	if proto != "" {
		fail("ack-protocol", proto)
		if ack == "none" {
			return rec, fmt.Errorf("pipeline stalled: %s", proto)
		}
	}
	after, err := readSnap(w.cap.client)
	if err != nil {
		return nil, err
	}
	vAfter, err := freshView(w.viewer)
	if err != nil {
		return nil, fmt.Errorf("view after: %w", err)
	}
	w.learn(vAfter)
	for i := gen0 + 1; i <= int(w.gen.n); i++ {
		u.Gens = append(u.Gens, i)
	}
	// learn the markers / ids of created messages
	resolveExpected(exp.After, after)
	for _, cr := range exp.Created {
		if a := after.msByRID(cr[0]); a != nil {
			if _, ok := w.litOf[a.IID]; !ok {
				w.litOf[a.IID] = cr[1]
			}
		}
	}
	// every message the update created, in creation order (for the model's fresh-id oracle)
	for _, cr := range exp.Created {
		if a := after.msByRID(cr[0]); a != nil && before.msByIID(a.IID) == nil {
			u.Fresh = append(u.Fresh, a.IID)
		}
	}
	rec.After = snapString(after, w.litOf)
	rec.Expect = snapString(exp.After, w.litOf)
	unchanged := diffViews(vBefore, vAfter, false)

	// ---- the protected mailbox: an update aimed at the recovery mailbox (by remote id or by internal id) is refused and
	// changes nothing, whatever the tag it is delivered under (first delivery, re-delivery, restatement) ----
	if exp.Why == "protected" {
		if ack != "err" {
			fail("protected-mailbox-update-acknowledged", fmt.Sprintf("update aimed at the recovery mailbox acknowledged with %s", ack))
		}
		if unchanged != "" {
			fail("protected-mailbox-changed", "the view changed: "+unchanged)
		}
		if a, b := snapString(before, w.litOf), snapString(after, w.litOf); a != b {
			fail("protected-mailbox-changed", "the database changed: "+a+" -> "+b)
		}
		res.Count("protected:" + u.Kind)
	}
	// ---- property oracle ----
	switch {
	case tag == "dup" || tag == "restate":
		// "applied successfully" is demanded of VALID updates only (every object the update names is known and not
		// protected in the state it is delivered to); a re-delivery that names an unknown or the protected mailbox
		// may be acknowledged with an error — it still gets exactly one ack (checked above) and must change nothing
		if ack != "ok" && exp.Valid {
			fail("replay-not-ok", fmt.Sprintf("re-delivered valid update acknowledged with %s %s", ack, ackErr))
		}
		if ack != "ok" {
			res.Count("replay-of-invalid-update-refused")
		}
		if unchanged != "" {
			fail("replay-changed-view", "re-delivery changed the view: "+unchanged)
		}
	case tag == "zombie-check":
		// after the purge of messages marked deleted every message the connector (re-)created is still listed
		if unchanged != "" {
			fail("changed-by-noop", unchanged)
		}
		if mb := after.mbByName("Z2"); mb == nil || len(mb.Rows) != 1 {
			fail("recreated-message-lost", "message rz re-created by MessagesCreated after MessageDeleted is gone after the purge: "+rec.After)
		} else if m := after.msByIID(mb.Rows[0].Msg); m == nil || m.Deleted {
			fail("recreated-message-marked-deleted", "message rz re-created by MessagesCreated is still marked for deletion: "+rec.After)
		}
	case exp.Valid:
		if ack != "ok" {
			fail("valid-update-refused", fmt.Sprintf("valid update acknowledged with error: %s", ackErr))
		}
		if d := diffViews(viewOf(exp.After, w.litOf), vAfter, true); d != "" {
			fail("effect-differs", d)
		}
	default:
		if ack == "err" && unchanged != "" {
			fail("error-with-partial-effect", "update acknowledged with an error but the view changed: "+unchanged)
		}
	}
	// the size announced for every listed message is the number of octets served for it (whatever the update kind:
	// a message is created by MessagesCreated and MessageUpdated, replaced by MessageUpdated with another literal)
	{
		var d []string
		for n, b := range vAfter.Boxes {
			for _, m := range b.Msgs {
				if m.Octets >= 0 && !strings.HasPrefix(m.Marker, "?unfetchable") && m.Size != m.Octets {
					d = append(d, fmt.Sprintf("%s uid %d (%s): RFC822.SIZE %d, BODY[] has %d octets", n, m.UID, m.Marker, m.Size, m.Octets))
				}
			}
		}
		if len(d) > 0 {
			sort.Strings(d)
			if len(d) > 5 {
				d = d[:5]
			}
			fail("size-differs-from-octets", strings.Join(d, "; "))
		}
	}
	// observers
	for _, o := range w.obs {
		evs, alive := w.drainObserver(o)
		if (tag == "dup" || tag == "restate") && u.Kind != "UIDValidityBumped" {
			if !alive {
				fail("replay-closed-session", "observer of "+o.mbox+" was disconnected by a re-delivered update")
			} else if len(evs) > 0 {
				fail("replay-announced", fmt.Sprintf("observer of %s received %v", o.mbox, evs))
			}
		}
		// "produces exactly the change it describes" also for a session that had the mailbox selected while the update
		// arrived: once everything queued for it has been applied and announced, what it shows (UIDs and flags) is what
		// a fresh session shows
		if fresh, ok := vAfter.Boxes[o.mbox]; ok && alive && ack == "ok" {
			if got, ok2 := observerMessages(o); ok2 {
				var want []vmsg
				for _, m := range fresh.Msgs {
					want = append(want, vmsg{UID: m.UID, Flags: m.Flags})
				}
				if msgsString(got) != msgsString(want) {
					fail("observer-diverged", fmt.Sprintf("the session that has %s selected shows %s, a fresh session shows %s (announced to it: %v)", o.mbox, msgsString(got), msgsString(want), evs))
				}
			}
		}
	}
	res.Evaluations++
	res.Count("kind:" + u.Kind)
	res.Count("tag:" + tag)
	res.Count("ack:" + ack)
	if tag == "dup" || tag == "restate" || (exp.Valid && unchanged != "") {
		res.Nontrivial(tag + ":" + u.canon() + "@" + rec.Before)
	}
	res.Sample(rec)
	w.em.emit(w, rec, before, after, u, ack)
	w.hist = append(w.hist, tag+":"+u.canon())
	return rec, nil
}

// client runs one client command on the command session (must succeed) and records it in the history.
func (w *world) client(lines ...string) error {
	for _, l := range lines {
		if _, err := okCmd(w.cmd, l); err != nil {
			return err
		}
		w.hist = append(w.hist, "C:"+l)
	}
	return nil
}

func (w *world) clientAppend(mbox, marker, flags string) error {
	r, err := w.cmd.Append(mbox, flags, literalOf(marker))
	if err != nil || r.Status != "OK" {
		return fmt.Errorf("append: %v %s", err, r.Text)
	}
	w.hist = append(w.hist, fmt.Sprintf("C:APPEND %s (%s) lit=%s", mbox, flags, marker))
	return nil
}

func runC06(ctx *common.Ctx) error {
	res := ctx.Res
	res.Rule = "sequences of connector updates of all 12 kinds (valid, unknown ids, recovery mailbox, name clashes) pushed through the connector channel of a running server, each successful one replayed as a fresh object, plus updates restating the current state (echo) after client commands; non-trivial = distinct (state, update) pairs that are replays/restatements or valid updates that change the view"
	em := &emitter{}
	over := func(err error) error {
		if errors.Is(err, errEpisodeOver) {
			return nil
		}
		return err
	}
	if err := over(scripted(ctx, em)); err != nil {
		return err
	}
	if err := over(bigBatch(ctx, em)); err != nil {
		return err
	}
	n := ctx.Budget(8, 40)
	for e := 0; e < n; e++ {
		if err := over(randomEpisode(ctx, em, e+1, ctx.Budget(30, 60))); err != nil {
			return err
		}
	}
	res.ModelCases = len(em.lines)
	return common.WriteCases(ctx.Out, "Run.RunC06", "case", em.lines, "")
}
