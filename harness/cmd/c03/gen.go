package main

import (
	"fmt"
	"strings"

	"verifharness/common"
)

// generator produces the commands of a small scenario online (it looks at the acting session's current view and at
// the reference model to steer ~30% of the commands into the interesting situations).
type generator struct {
	rng     *common.Rng
	left    int
	k       int
	pending []intent
}

type intent struct {
	S    int
	What string // "stale-op", "again", "expunge", "del-ent", "flag-ent", "set-ent", "expunge-or-close", "noop", "switch", "all-op"
	Dst  string
	Ent  int
	Del  bool // set-ent: the replacing flag list contains \Deleted
}

func otherBox(rng *common.Rng, not string) string {
	for {
		b := boxNames[rng.Pick(len(boxNames))]
		if b != not {
			return b
		}
	}
}

func (g *generator) setup() []op {
	var ops []op
	shared := g.rng.Chance(0.7)
	first := boxNames[g.rng.Pick(len(boxNames))]
	for i := 0; i < g.k; i++ {
		b := first
		if i > 0 && !shared {
			b = boxNames[g.rng.Pick(len(boxNames))]
		}
		ops = append(ops, op{Kind: "SELECT", S: i, Box: b, Setup: true})
	}
	if g.k >= 3 && g.rng.Chance(0.5) {
		// two sessions share a mailbox, the last one has another mailbox selected
		ops[1].Box = first
		ops[g.k-1].Box = otherBox(g.rng, first)
	}
	return ops
}

var appendFlagPool = [][]string{
	{}, {}, {}, {`\Seen`}, {"Foo"}, {"foo", `\Flagged`}, {`\Deleted`}, {`\Deleted`, "Foo"}, {`\seen`}, {"FOO", "foo"},
	{"bar"}, {`\Answered`, `\Draft`}, {"Foo", "Bar", `\Seen`}, {`\DELETED`},
}

func (g *generator) genAppend(w *world, si int) op {
	s := w.sess[si]
	box := s.box
	switch x := g.rng.Pick(100); {
	case x < 22:
		box = otherBox(g.rng, s.box)
	case x < 26:
		box = noBox
	}
	fl := appendFlagPool[g.rng.Pick(len(appendFlagPool))]
	if g.rng.Chance(0.012) {
		fl = []string{"a,b"}
	}
	return op{Kind: "APPEND", S: si, Box: box, Flags: append([]string{}, fl...)}
}

func swapCase(f string) string {
	if f == strings.ToLower(f) {
		if len(f) > 0 {
			return strings.ToUpper(f[:1]) + f[1:]
		}
		return f
	}
	return strings.ToLower(f)
}

// a keyword some target entity holds (lower-case), if any
func (g *generator) heldKeyword(w *world, rows []vrow) string {
	var cand []string
	for _, r := range rows {
		for _, f := range w.m.flagList(r.Ent) {
			if !strings.HasPrefix(f, `\`) && !strings.HasPrefix(f, "$") {
				cand = append(cand, f)
			}
		}
	}
	if len(cand) == 0 {
		return ""
	}
	return cand[g.rng.Pick(len(cand))]
}

func (g *generator) genStoreFlags(w *world, rows []vrow) []string {
	switch x := g.rng.Pick(100); {
	case x < 9:
		return []string{}
	case x < 22:
		return []string{`\Deleted`}
	case x < 31:
		return []string{`\Seen`, `\Flagged`}
	case x < 37:
		return []string{`\Seen`}
	case x < 41:
		return []string{`\Answered`}
	case x < 47:
		return []string{`\Deleted`, "x"}
	case x < 66: // a keyword, preferably one that is stored in another spelling
		if kw := g.heldKeyword(w, rows); kw != "" && g.rng.Chance(0.8) {
			if g.rng.Chance(0.7) {
				return []string{swapCase(kw)}
			}
			return []string{strings.ToUpper(kw)}
		}
		return []string{[]string{"Foo", "foo", "FOO", "bar", "Bar"}[g.rng.Pick(5)]}
	case x < 73:
		return []string{"y", `\Seen`}
	case x < 79:
		return []string{[]string{"$Forwarded", "Forwarded", "$FORWARDED", "forwarded"}[g.rng.Pick(4)]}
	case x < 81:
		return []string{"a,b"}
	case x < 88:
		return []string{[]string{`\seen`, `\FLAGGED`, `\deleted`}[g.rng.Pick(3)]}
	case x < 92:
		return []string{"Foo", "foo"}
	case x < 94:
		return []string{`\Recent`}
	default:
		return []string{`\Draft`, "Foo"}
	}
}

func (g *generator) selKind() string {
	if g.rng.Chance(0.35) {
		return "EXAMINE"
	}
	return "SELECT"
}

func (g *generator) selKindMostlySelect() string {
	if g.rng.Chance(0.2) {
		return "EXAMINE"
	}
	return "SELECT"
}

func (g *generator) genAct() string {
	switch x := g.rng.Pick(100); {
	case x < 40:
		return "+"
	case x < 70:
		return "-"
	}
	return "="
}

// genSet: a message set that is valid for the view (len(view) > 0).
func (g *generator) genSet(view []vrow, uid bool) string {
	n := len(view)
	num := func(i int) string { // i = 1-based position
		if uid {
			return fmt.Sprint(view[i-1].UID)
		}
		return fmt.Sprint(i)
	}
	a := g.rng.Range(1, n)
	switch x := g.rng.Pick(100); {
	case x < 38:
		return num(a)
	case x < 60:
		b := g.rng.Range(1, n)
		if g.rng.Chance(0.8) && a > b {
			a, b = b, a
		}
		return num(a) + ":" + num(b)
	case x < 77:
		if g.rng.Chance(0.3) {
			return num(a) + ":*"
		}
		return "1:*"
	case x < 84:
		return num(a) + "," + num(a)
	case x < 92:
		b := g.rng.Range(a, n)
		return num(a) + ":" + num(b) + "," + num(b)
	default:
		b := g.rng.Range(1, n)
		c := g.rng.Range(1, n)
		return num(a) + "," + num(b) + "," + num(c)
	}
}

// genSetUnordered: a set of at least two messages that is NOT written in ascending order (needs len(view) >= 2):
// 3,1   4:2,1   2,2:3   3,2,1   2:3,1:2   *,1
func (g *generator) genSetUnordered(view []vrow, uid bool) string {
	n := len(view)
	num := func(i int) string {
		if uid {
			return fmt.Sprint(view[i-1].UID)
		}
		return fmt.Sprint(i)
	}
	a := g.rng.Range(1, n-1)
	b := g.rng.Range(a+1, n) // a < b
	switch x := g.rng.Pick(100); {
	case x < 30:
		return num(b) + "," + num(a)
	case x < 45:
		if b < n {
			return num(n) + ":" + num(b) + "," + num(a) // 4:2,1
		}
		return num(b) + "," + num(a) + ":" + num(b)
	case x < 60:
		return num(b) + "," + num(a) + ":" + num(b) // 2,2:3 shape: an element again inside a later range
	case x < 72:
		if n >= 3 {
			c := g.rng.Range(1, n)
			return num(b) + "," + num(c) + "," + num(a)
		}
		return num(b) + "," + num(a)
	case x < 84:
		return num(a) + ":" + num(b) + "," + num(1) + ":" + num(a)
	case x < 92:
		return "*," + num(a)
	default:
		return num(b) + ":" + num(a) + "," + num(a) // a reversed range and its lower end again
	}
}

// setAround: a set that contains the given row (position p, 1-based) of the view.
func (g *generator) setAround(view []vrow, p int, uid bool) string {
	num := func(i int) string {
		if uid {
			return fmt.Sprint(view[i-1].UID)
		}
		return fmt.Sprint(i)
	}
	switch x := g.rng.Pick(100); {
	case x < 55:
		return num(p)
	case x < 75:
		lo := p
		if lo > 1 {
			lo--
		}
		hi := p
		if hi < len(view) && g.rng.Chance(0.5) {
			hi++
		}
		return num(lo) + ":" + num(hi)
	case x < 90:
		return "1:*"
	default:
		return num(p) + "," + num(p)
	}
}

func (g *generator) badSet(view []vrow) string {
	n := len(view)
	switch g.rng.Pick(4) {
	case 0:
		return fmt.Sprint(n + g.rng.Range(1, 3))
	case 1:
		return fmt.Sprintf("1:%d", n+1)
	case 2:
		return "0"
	default:
		return fmt.Sprintf("%d,%d", n+2, n+1)
	}
}

// copySet: the set of a COPY / MOVE; 40% of the time (two or more messages in view) not written in ascending order
func (g *generator) copySet(view []vrow, uid bool) string {
	if len(view) >= 2 && g.rng.Chance(0.4) {
		return g.genSetUnordered(view, uid)
	}
	return g.genSet(view, uid)
}

func stalePositions(view []vrow) []int {
	var out []int
	for i, r := range view {
		if r.Stale {
			out = append(out, i+1)
		}
	}
	return out
}

// opOnRow: STORE / COPY / MOVE / (UID) EXPUNGE aimed at position p of the view of session si.
func (g *generator) opOnRow(w *world, si, p int) op {
	s := w.sess[si]
	uid := g.rng.Chance(0.4)
	set := g.setAround(s.view, p, uid)
	switch x := g.rng.Pick(100); {
	case x < 34:
		return op{Kind: "STORE", S: si, UID: uid, Set: set, Act: g.genAct(), Silent: g.rng.Chance(0.3), Flags: g.genStoreFlags(w, s.view[p-1:p])}
	case x < 58:
		dst := boxNames[g.rng.Pick(len(boxNames))]
		return op{Kind: "COPY", S: si, UID: uid, Set: set, Box: dst}
	case x < 86:
		dst := boxNames[g.rng.Pick(len(boxNames))]
		// prefer a destination that already holds the message
		for _, b := range w.m.Boxes {
			if b.Name != s.box && b.find(s.view[p-1].Ent) >= 0 && g.rng.Chance(0.6) {
				dst = b.Name
			}
		}
		return op{Kind: "MOVE", S: si, UID: uid, Set: set, Box: dst}
	case x < 93:
		return op{Kind: "EXPUNGE", S: si}
	default:
		return op{Kind: "UIDEXPUNGE", S: si, Set: g.setAround(s.view, p, true)}
	}
}

func (g *generator) sharing(w *world, si int) []int {
	var out []int
	for j, t := range w.sess {
		if j != si && t.box == w.sess[si].box {
			out = append(out, j)
		}
	}
	return out
}

// next returns the next command (ok = false when the scenario is complete).
func (g *generator) next(w *world) (op, bool, error) {
	if g.left <= 0 {
		return op{}, false, nil
	}
	g.left--
	// follow-ups planned earlier
	for len(g.pending) > 0 {
		in := g.pending[0]
		g.pending = g.pending[1:]
		// commands that must reach the session while it has NOT yet been told the news (no view refresh before them)
		switch in.What {
		case "noop":
			if w.sess[in.S].box != "" {
				return op{Kind: "NOOP", S: in.S}, true, nil
			}
			continue
		case "switch":
			if cur := w.sess[in.S].box; cur != "" {
				return op{Kind: g.selKindMostlySelect(), S: in.S, Box: otherBox(g.rng, cur)}, true, nil
			}
			continue
		}
		if err := w.refresh(in.S); err != nil {
			return op{}, false, err
		}
		s := w.sess[in.S]
		switch in.What {
		case "stale-op":
			if st := stalePositions(s.view); len(st) > 0 {
				return g.opOnRow(w, in.S, st[g.rng.Pick(len(st))]), true, nil
			}
		case "expunge":
			return op{Kind: "EXPUNGE", S: in.S}, true, nil
		case "expunge-or-close":
			if g.rng.Chance(0.3) {
				return op{Kind: "CLOSE", S: in.S, Box: s.box}, true, nil
			}
			return op{Kind: "EXPUNGE", S: in.S}, true, nil
		case "all-op":
			// a command over everything the session is shown
			if len(s.view) == 0 {
				return op{Kind: "EXPUNGE", S: in.S}, true, nil
			}
			switch x := g.rng.Pick(100); {
			case x < 50:
				return op{Kind: "STORE", S: in.S, Set: "1:*", Act: "+", Flags: [][]string{{`\Answered`}, {"sw"}, {`\Deleted`}}[g.rng.Pick(3)]}, true, nil
			case x < 65:
				return op{Kind: "STORE", S: in.S, UID: true, Set: "1:*", Act: "=", Flags: []string{"sw", `\Seen`}}, true, nil
			case x < 85:
				return op{Kind: []string{"COPY", "MOVE"}[g.rng.Pick(2)], S: in.S, Set: "1:*", Box: otherBox(g.rng, s.box)}, true, nil
			default:
				return op{Kind: "EXPUNGE", S: in.S}, true, nil
			}
		case "set-ent":
			for i, r := range s.view {
				if r.Ent == in.Ent {
					uid := g.rng.Chance(0.3)
					set := fmt.Sprint(i + 1)
					if uid {
						set = fmt.Sprint(r.UID)
					}
					fl := [][]string{{`\Answered`}, {"xs"}, {}, {`\Seen`, "xs"}}[g.rng.Pick(4)]
					if in.Del {
						fl = append([]string{`\Deleted`}, fl...)
					}
					return op{Kind: "STORE", S: in.S, UID: uid, Set: set, Act: "=", Silent: g.rng.Chance(0.3), Flags: fl}, true, nil
				}
			}
		case "undel-ent":
			// the \Deleted mark is taken back: -FLAGS (\Deleted), or a replacing list without it
			for i, r := range s.view {
				if r.Ent == in.Ent {
					uid := g.rng.Chance(0.3)
					set := fmt.Sprint(i + 1)
					if uid {
						set = fmt.Sprint(r.UID)
					}
					if g.rng.Chance(0.7) {
						return op{Kind: "STORE", S: in.S, UID: uid, Set: set, Act: "-", Silent: g.rng.Chance(0.3), Flags: [][]string{{`\Deleted`}, {`\Deleted`, "xs"}, {`\deleted`}}[g.rng.Pick(3)]}, true, nil
					}
					return op{Kind: "STORE", S: in.S, UID: uid, Set: set, Act: "=", Silent: g.rng.Chance(0.3), Flags: [][]string{{}, {`\Seen`}}[g.rng.Pick(2)]}, true, nil
				}
			}
		case "del-ent", "flag-ent":
			for i, r := range s.view {
				if r.Ent == in.Ent {
					uid := g.rng.Chance(0.3)
					set := fmt.Sprint(i + 1)
					if uid {
						set = fmt.Sprint(r.UID)
					}
					if in.What == "del-ent" {
						return op{Kind: "STORE", S: in.S, UID: uid, Set: set, Act: "+", Silent: g.rng.Chance(0.4), Flags: []string{`\Deleted`}}, true, nil
					}
					acts := []string{"+", "+", "-", "="}
					fl := [][]string{{"xm"}, {`\Seen`}, {`\Flagged`, "xm"}, {"Foo"}}[g.rng.Pick(4)]
					act := acts[g.rng.Pick(len(acts))]
					if act == "=" { // a STORE FLAGS through the other mailbox must not touch \Deleted of this one either
						fl = []string{"xs"}
					}
					return op{Kind: "STORE", S: in.S, UID: uid, Set: set, Act: act, Silent: g.rng.Chance(0.3), Flags: fl}, true, nil
				}
			}
		case "again":
			for i, r := range s.view {
				if r.Ent == in.Ent {
					kind := "MOVE"
					if g.rng.Chance(0.35) {
						kind = "COPY"
					}
					uid := g.rng.Chance(0.4)
					return op{Kind: kind, S: in.S, UID: uid, Set: g.setAround(s.view, i+1, uid), Box: in.Dst}, true, nil
				}
			}
		}
	}
	si := g.rng.Pick(g.k)
	if err := w.refresh(si); err != nil {
		return op{}, false, err
	}
	s := w.sess[si]
	view := s.view
	n := len(view)
	if n < 2 && g.rng.Chance(0.75) {
		o := g.genAppend(w, si)
		if g.rng.Chance(0.8) {
			o.Box = s.box
		}
		return o, true, nil
	}
	x := g.rng.Pick(100)
	if x < 30 && n > 0 {
		// interesting situations
		st := stalePositions(view)
		sh := g.sharing(w, si)
		// sessions that have another mailbox selected
		var elsewhere []int
		for j, t := range w.sess {
			if j != si && t.box != s.box {
				elsewhere = append(elsewhere, j)
			}
		}
		if len(elsewhere) > 0 && len(sh) > 0 && g.rng.Chance(0.45) {
			// one message in two mailboxes whose \Deleted differs; STORE FLAGS (replace form) here; the session of the other
			// mailbox is told first, then a second session of this mailbox, which then expunges
			other := elsewhere[g.rng.Pick(len(elsewhere))]
			mate := sh[g.rng.Pick(len(sh))]
			p := g.rng.Range(1, n)
			ent := view[p-1].Ent
			if g.rng.Chance(0.5) {
				// \Deleted there, not here
				g.pending = append(g.pending, intent{S: other, What: "del-ent", Ent: ent}, intent{S: si, What: "set-ent", Ent: ent})
			} else {
				// \Deleted here (by the replacing STORE), not there
				g.pending = append(g.pending, intent{S: si, What: "set-ent", Ent: ent, Del: true})
			}
			g.pending = append(g.pending, intent{S: other, What: "noop"}, intent{S: mate, What: "expunge-or-close"})
			return op{Kind: "COPY", S: si, Set: fmt.Sprint(p), Box: w.sess[other].box}, true, nil
		}
		if len(sh) > 0 && g.rng.Chance(0.3) {
			// \Deleted set and taken back by this session; a session that shares the mailbox is told after each step and then
			// expunges / closes: nothing may go
			mate := sh[g.rng.Pick(len(sh))]
			p := g.rng.Range(1, n)
			ent := view[p-1].Ent
			g.pending = append(g.pending, intent{S: mate, What: "noop"}, intent{S: si, What: "undel-ent", Ent: ent})
			if g.rng.Chance(0.7) {
				g.pending = append(g.pending, intent{S: mate, What: "noop"})
			}
			g.pending = append(g.pending, intent{S: mate, What: "expunge-or-close"})
			return op{Kind: "STORE", S: si, Set: fmt.Sprint(p), Act: "+", Silent: g.rng.Chance(0.3), Flags: []string{`\Deleted`}}, true, nil
		}
		if len(sh) > 0 && g.rng.Chance(0.3) {
			// news for this mailbox (a new message, or one taken out and put back), then a session that shares the mailbox
			// switches to another one before it has been told, is told there and works on everything it is shown
			mate := sh[g.rng.Pick(len(sh))]
			g.pending = append(g.pending, intent{S: mate, What: "switch"})
			if g.rng.Chance(0.6) {
				g.pending = append(g.pending, intent{S: mate, What: "noop"})
			}
			g.pending = append(g.pending, intent{S: mate, What: "all-op"})
			if g.rng.Chance(0.5) {
				return op{Kind: "APPEND", S: si, Box: s.box, Flags: []string{}}, true, nil
			}
			return op{Kind: []string{"MOVE", "COPY"}[g.rng.Pick(2)], S: si, Set: fmt.Sprint(g.rng.Range(1, n)), Box: s.box}, true, nil
		}
		if len(elsewhere) > 0 && g.rng.Chance(0.3) {
			// one message in two mailboxes: \Deleted here, another flag changed through the other mailbox, then EXPUNGE/CLOSE here
			other := elsewhere[g.rng.Pick(len(elsewhere))]
			p := g.rng.Range(1, n)
			ent := view[p-1].Ent
			g.pending = append(g.pending, intent{S: si, What: "del-ent", Ent: ent}, intent{S: other, What: "flag-ent", Ent: ent},
				intent{S: si, What: "expunge-or-close"})
			return op{Kind: "COPY", S: si, Set: fmt.Sprint(p), Box: w.sess[other].box}, true, nil
		}
		switch y := g.rng.Pick(100); {
		case y < 35 && len(st) > 0:
			return g.opOnRow(w, si, st[g.rng.Pick(len(st))]), true, nil
		case y < 60 && len(sh) > 0:
			// make a message of this mailbox disappear while another session still sees it, then let that session use it
			other := sh[g.rng.Pick(len(sh))]
			p := g.rng.Range(1, n)
			g.pending = append(g.pending, intent{S: other, What: "stale-op"})
			if g.rng.Chance(0.5) {
				uid := g.rng.Chance(0.3)
				return op{Kind: "MOVE", S: si, UID: uid, Set: g.setAround(view, p, uid), Box: otherBox(g.rng, s.box)}, true, nil
			}
			if view[p-1].deleted() {
				return op{Kind: "EXPUNGE", S: si}, true, nil
			}
			// STORE \Deleted now, EXPUNGE by the same session next, then the other session
			g.pending = append([]intent{{S: si, What: "expunge"}}, g.pending...)
			return op{Kind: "STORE", S: si, Set: fmt.Sprint(p), Act: "+", Silent: g.rng.Chance(0.5), Flags: []string{`\Deleted`}}, true, nil
		case y < 75:
			kind := "COPY"
			if g.rng.Chance(0.5) {
				kind = "MOVE"
			}
			uid := g.rng.Chance(0.3)
			return op{Kind: kind, S: si, UID: uid, Set: g.copySet(view, uid), Box: s.box}, true, nil
		default:
			// a message that the destination already holds
			for _, i := range g.rng.Perm(n) {
				for _, b := range w.m.Boxes {
					if b.Name != s.box && b.find(view[i].Ent) >= 0 {
						kind := "MOVE"
						if g.rng.Chance(0.4) {
							kind = "COPY"
						}
						uid := g.rng.Chance(0.3)
						return op{Kind: kind, S: si, UID: uid, Set: g.setAround(view, i+1, uid), Box: b.Name}, true, nil
					}
				}
			}
			p := g.rng.Range(1, n)
			dst := otherBox(g.rng, s.box)
			g.pending = append(g.pending, intent{S: si, What: "again", Dst: dst, Ent: view[p-1].Ent})
			return op{Kind: "COPY", S: si, Set: fmt.Sprint(p), Box: dst}, true, nil
		}
	}
	x = g.rng.Pick(100)
	if n == 0 {
		// only commands that make sense on an empty view
		switch {
		case x < 60:
			return g.genAppend(w, si), true, nil
		case x < 70:
			return op{Kind: g.selKind(), S: si, Box: boxNames[g.rng.Pick(len(boxNames))]}, true, nil
		case x < 80:
			return op{Kind: "EXPUNGE", S: si}, true, nil
		case x < 90:
			return op{Kind: "STORE", S: si, Set: "1", Act: "+", Flags: []string{`\Seen`}}, true, nil
		default:
			return op{Kind: "COPY", S: si, Set: "1:*", Box: otherBox(g.rng, s.box)}, true, nil
		}
	}
	uid := g.rng.Chance(0.35)
	switch {
	case x < 18:
		return g.genAppend(w, si), true, nil
	case x < 45:
		set := g.genSet(view, uid)
		rows, _ := resolveRows(view, set, uid)
		act, flags := g.genAct(), g.genStoreFlags(w, rows)
		if act == "-" && len(rows) > 0 && g.rng.Chance(0.5) {
			// remove something the LAST target really has (a removal that only works for some of the targets must show)
			last := rows[len(rows)-1]
			if last.deleted() && g.rng.Chance(0.7) {
				flags = []string{`\Deleted`}
			} else if fl := w.m.flagList(last.Ent); len(fl) > 0 {
				flags = []string{fl[g.rng.Pick(len(fl))]}
			}
		}
		return op{Kind: "STORE", S: si, UID: uid, Set: set, Act: act, Silent: g.rng.Chance(0.3), Flags: flags}, true, nil
	case x < 51:
		return op{Kind: "EXPUNGE", S: si}, true, nil
	case x < 53:
		return op{Kind: "NOOP", S: si}, true, nil
	case x < 58:
		return op{Kind: "UIDEXPUNGE", S: si, Set: g.genSet(view, true)}, true, nil
	case x < 62:
		return op{Kind: "CLOSE", S: si, Box: boxNames[g.rng.Pick(len(boxNames))]}, true, nil
	case x < 66:
		// re-select; a third of the time read-only, preferably a mailbox in which something is marked \Deleted
		kind := g.selKind()
		box := boxNames[g.rng.Pick(len(boxNames))]
		if kind == "EXAMINE" {
			for _, b := range w.m.Boxes {
				for _, e := range b.Ents {
					if e.Del && g.rng.Chance(0.5) {
						box = b.Name
					}
				}
			}
		}
		return op{Kind: kind, S: si, Box: box}, true, nil
	case x < 78:
		return op{Kind: "COPY", S: si, UID: uid, Set: g.copySet(view, uid), Box: otherBox(g.rng, s.box)}, true, nil
	case x < 89:
		return op{Kind: "MOVE", S: si, UID: uid, Set: g.copySet(view, uid), Box: otherBox(g.rng, s.box)}, true, nil
	case x < 94:
		kind := []string{"STORE", "COPY", "MOVE"}[g.rng.Pick(3)]
		o := op{Kind: kind, S: si, Set: g.badSet(view), Box: otherBox(g.rng, s.box)}
		if kind == "STORE" {
			o.Box = ""
			o.Act = g.genAct()
			o.Flags = []string{`\Seen`}
		}
		return o, true, nil
	default:
		kind := "COPY"
		if g.rng.Chance(0.5) {
			kind = "MOVE"
		}
		return op{Kind: kind, S: si, UID: uid, Set: g.genSet(view, uid), Box: noBox}, true, nil
	}
}
